//go:build verif

// Package adm drives admission.Admission.Validate with fake dependencies that
// answer from a WorldSpec and log every effect, and renders requests,
// worlds and observations as Gallina terms.
package adm

import (
	"bytes"
	"context"
	"encoding/json"
	"errors"
	"fmt"
	"net/http"
	"net/http/httptest"
	"sort"
	"strings"
	"sync"
	"sync/atomic"
	"time"

	admissionv1 "k8s.io/api/admission/v1"
	appsv1 "k8s.io/api/apps/v1"
	authenticationv1 "k8s.io/api/authentication/v1"
	batchv1 "k8s.io/api/batch/v1"
	corev1 "k8s.io/api/core/v1"
	apierrors "k8s.io/apimachinery/pkg/api/errors"
	metav1 "k8s.io/apimachinery/pkg/apis/meta/v1"
	"k8s.io/apimachinery/pkg/runtime"
	"k8s.io/apimachinery/pkg/runtime/schema"
	clientscheme "k8s.io/client-go/kubernetes/scheme"
	"k8s.io/pod-security-admission/admission"
	admissionapi "k8s.io/pod-security-admission/admission/api"
	"k8s.io/pod-security-admission/api"
	webhookserver "k8s.io/pod-security-admission/cmd/webhook/server"
	"k8s.io/pod-security-admission/metrics"
	"k8s.io/pod-security-admission/policy"
	"psaverif/internal/cq"
	"psaverif/internal/enc"
)

// ---------------------------------------------------------------- specs

type ObjSpec struct {
	Kind        string            `json:"kind"` // decodeerr | nil | pod | namespace | controller | other
	Pod         *corev1.Pod       `json:"pod,omitempty"`
	NSName      string            `json:"nsName,omitempty"`
	Labels      map[string]string `json:"labels,omitempty"`
	CtlKind     string            `json:"ctlKind,omitempty"`
	HasTemplate bool              `json:"hasTemplate,omitempty"`
	Generation  int64             `json:"generation,omitempty"` // metadata.generation of a controller object
	CtlJunk     int               `json:"ctlJunk,omitempty"`    // bits selecting kind-specific fields outside the pod template (suspend, paused, replicas ...)
}

type ReqSpec struct {
	Group, Resource, Subresource, Namespace, Name, User, Op string
	Object, Old                                             ObjSpec
	DeadlineIn                                              *time.Duration // request context deadline, relative to the call
	// Wire: hand Validate the webhook's own api.RequestAttributes over an AdmissionRequest whose
	// objects are raw JSON (decoded by the server's deserializer) instead of in-memory fakes.
	Wire bool
}

type WorldSpec struct {
	NSLabels    map[string]string
	NSErr       bool
	ErrKind     int // flavour of the injected namespace-lookup / list error (see InjectedError)
	Pods        []*corev1.Pod
	ListErr     bool
	ExpireAfter *int // cancel the request context inside the evaluator call for listed pod #k
}

type CfgSpec struct {
	Defaults api.Policy
	ExNS     []string
	ExUsers  []string
	ExRCs    []string
	MaxPods  int
	Timeout  time.Duration
}

type Event struct {
	Kind     string // nslookup decode decodeold list eval meval mexempt merror
	LV       api.LevelVersion
	Pod      string
	Deny     bool
	Mode     string
	Fatal    bool
	Deadline time.Time
	HasDL    bool
	At       time.Time
}

type Obs struct {
	Resp   *admissionv1.AdmissionResponse
	Shared string
	Trace  []Event
	Panic  string
	T0     time.Time
}

// ---------------------------------------------------------------- marker evaluator

// MarkerEvaluator: a pod is denied at level:version x iff it carries the annotation m/<x>.
type MarkerEvaluator struct{}

func (MarkerEvaluator) EvaluatePod(lv api.LevelVersion, meta *metav1.ObjectMeta, _ *corev1.PodSpec) []policy.CheckResult {
	if lv.Level == api.LevelPrivileged {
		return nil
	}
	if v, ok := meta.Annotations["m/"+lv.String()]; ok {
		return []policy.CheckResult{{Allowed: false, ForbiddenReason: v, ForbiddenDetail: "detail of " + v}}
	}
	return []policy.CheckResult{{Allowed: true}}
}

// ---------------------------------------------------------------- fakes

type logger struct {
	mu     sync.Mutex
	events []Event
}

func (l *logger) add(e Event) {
	e.At = time.Now()
	l.mu.Lock()
	l.events = append(l.events, e)
	l.mu.Unlock()
}

type recEvaluator struct {
	inner  policy.Evaluator
	log    *logger
	cancel context.CancelFunc
	expire *int
	n      int
}

func (r *recEvaluator) EvaluatePod(lv api.LevelVersion, meta *metav1.ObjectMeta, spec *corev1.PodSpec) []policy.CheckResult {
	r.log.add(Event{Kind: "eval", LV: lv, Pod: meta.Name})
	if r.expire != nil && r.n == *r.expire && r.cancel != nil {
		r.cancel()
	}
	r.n++
	return r.inner.EvaluatePod(lv, meta, spec)
}

type recMetrics struct{ log *logger }

func (m recMetrics) RecordEvaluation(d metrics.Decision, lv api.LevelVersion, mode metrics.Mode, _ api.Attributes) {
	m.log.add(Event{Kind: "meval", Deny: d == metrics.DecisionDeny, LV: lv, Mode: string(mode)})
}
func (m recMetrics) RecordExemption(api.Attributes) { m.log.add(Event{Kind: "mexempt"}) }
func (m recMetrics) RecordError(fatal bool, _ api.Attributes) {
	m.log.add(Event{Kind: "merror", Fatal: fatal})
}

// NullMetrics discards every recording.
type NullMetrics struct{}

func (NullMetrics) RecordEvaluation(metrics.Decision, api.LevelVersion, metrics.Mode, api.Attributes) {
}
func (NullMetrics) RecordExemption(api.Attributes)   {}
func (NullMetrics) RecordError(bool, api.Attributes) {}

// LabelsRV: a resourceVersion that changes exactly when the labels change.
func LabelsRV(ls map[string]string) string {
	keys := make([]string, 0, len(ls))
	for k := range ls {
		keys = append(keys, k)
	}
	sort.Strings(keys)
	h := uint32(2166136261)
	for _, k := range keys {
		for _, c := range []byte(k + "=" + ls[k] + ";") {
			h = (h ^ uint32(c)) * 16777619
		}
	}
	return fmt.Sprint(1000 + h%100000)
}

// InjectedError: the flavours of dependency failure; none of them is treated specially by the admission code.
func InjectedError(kind int, what string) error {
	switch kind % 8 {
	case 1:
		return apierrors.NewNotFound(schema.GroupResource{Resource: "namespaces"}, "gone")
	case 2:
		return context.DeadlineExceeded
	case 3:
		return context.Canceled
	case 4:
		return apierrors.NewTimeoutError("injected "+what+" timeout", 1)
	case 5:
		return apierrors.NewServerTimeout(schema.GroupResource{Resource: "namespaces"}, "get", 1)
	case 6:
		return apierrors.NewInternalError(errors.New("injected " + what + " internal error"))
	case 7:
		return fmt.Errorf("injected %s failure: %w", what, context.DeadlineExceeded)
	}
	return errors.New("injected " + what + " failure")
}

type fakeNS struct {
	w   *WorldSpec
	log *logger
}

func (f fakeNS) GetNamespace(ctx context.Context, name string) (*corev1.Namespace, error) {
	f.log.add(Event{Kind: "nslookup"})
	if f.w.NSErr {
		return nil, InjectedError(f.w.ErrKind, "namespace lookup")
	}
	return &corev1.Namespace{ObjectMeta: metav1.ObjectMeta{Name: name, Labels: f.w.NSLabels, ResourceVersion: LabelsRV(f.w.NSLabels), UID: "ns-uid"}}, nil
}

type fakeLister struct {
	w   *WorldSpec
	log *logger
}

func (f fakeLister) ListPods(ctx context.Context, ns string) ([]*corev1.Pod, error) {
	dl, ok := ctx.Deadline()
	f.log.add(Event{Kind: "list", Deadline: dl, HasDL: ok})
	if f.w.ListErr {
		return nil, InjectedError(f.w.ErrKind, "list")
	}
	out := make([]*corev1.Pod, len(f.w.Pods))
	copy(out, f.w.Pods) // prioritizePods reorders its input slice in place
	return out, nil
}

type fakeAttrs struct {
	r   *ReqSpec
	log *logger
}

func (a fakeAttrs) GetName() string      { return a.r.Name }
func (a fakeAttrs) GetNamespace() string { return a.r.Namespace }
func (a fakeAttrs) GetResource() schema.GroupVersionResource {
	return schema.GroupVersionResource{Group: a.r.Group, Version: "v1", Resource: a.r.Resource}
}
func (a fakeAttrs) GetKind() schema.GroupVersionKind {
	return schema.GroupVersionKind{Group: a.r.Group, Version: "v1", Kind: "Kind"}
}
func (a fakeAttrs) GetSubresource() string              { return a.r.Subresource }
func (a fakeAttrs) GetOperation() admissionv1.Operation { return admissionv1.Operation(a.r.Op) }
func (a fakeAttrs) GetUserName() string                 { return a.r.User }
func (a fakeAttrs) GetObject() (runtime.Object, error) {
	a.log.add(Event{Kind: "decode"})
	return BuildObject(&a.r.Object)
}
func (a fakeAttrs) GetOldObject() (runtime.Object, error) {
	a.log.add(Event{Kind: "decodeold"})
	return BuildObject(&a.r.Old)
}

// wireAttrs wraps the real request adapter only to log the decode calls.
type wireAttrs struct {
	api.Attributes
	log *logger
}

func (a wireAttrs) GetObject() (runtime.Object, error) {
	a.log.add(Event{Kind: "decode"})
	return a.Attributes.GetObject()
}
func (a wireAttrs) GetOldObject() (runtime.Object, error) {
	a.log.add(Event{Kind: "decodeold"})
	return a.Attributes.GetOldObject()
}

// rawOf serialises what BuildObject would return; decode errors become undecodable bytes.
func rawOf(o *ObjSpec, flavor int) (runtime.RawExtension, *metav1.GroupVersionKind) {
	switch o.Kind {
	case "decodeerr":
		switch flavor % 3 {
		case 0:
			return runtime.RawExtension{Raw: []byte(`{"apiVersion":"v1","kind":"Pod","metadata":{"name":`)}, nil
		case 1:
			return runtime.RawExtension{Raw: []byte(`{"apiVersion":"example.test/v9","kind":"NoSuchKind","metadata":{"name":"x"}}`)}, nil
		default:
			return runtime.RawExtension{Raw: []byte(`{"apiVersion":"v1","kind":"Pod","spec":{"containers":"not-a-list"}}`)}, nil
		}
	case "nil":
		return runtime.RawExtension{}, nil
	}
	obj, err := BuildObject(o)
	if err != nil || obj == nil {
		panic("rawOf: unexpected object")
	}
	obj = obj.DeepCopyObject()
	gvks, _, err := clientscheme.Scheme.ObjectKinds(obj)
	if err != nil || len(gvks) == 0 {
		panic(fmt.Sprint("rawOf: no kind for object: ", err))
	}
	obj.GetObjectKind().SetGroupVersionKind(gvks[0])
	b, err := json.Marshal(obj)
	if err != nil {
		panic("rawOf: " + err.Error())
	}
	return runtime.RawExtension{Raw: b}, &metav1.GroupVersionKind{Group: gvks[0].Group, Version: gvks[0].Version, Kind: gvks[0].Kind}
}

// the userInfo fields the library must not look at carry names that most generated configurations exempt
var (
	WireUserUID    = "exempt-user"
	WireUserGroups = []string{"system:authenticated", "system:admin", "exempt-user", "a-user"}
)

// WireRequest builds the AdmissionRequest an API server would send for req.
func WireRequest(cfg *CfgSpec, req *ReqSpec) *admissionv1.AdmissionRequest {
	flavor := len(req.Name) + len(req.Namespace) + len(req.User)
	obj, kind := rawOf(&req.Object, flavor)
	old, oldKind := rawOf(&req.Old, flavor+1)
	if kind == nil {
		kind = oldKind
	}
	if kind == nil {
		kind = &metav1.GroupVersionKind{Version: "v1", Kind: "Pod"}
	}
	res := metav1.GroupVersionResource{Group: req.Group, Version: "v1", Resource: req.Resource}
	// a user name that is empty must stay empty: the UID and groups name users that configurations exempt
	uid, groups := WireUserUID, WireUserGroups
	return &admissionv1.AdmissionRequest{
		UID: "wire-uid", Kind: *kind, Resource: res, SubResource: req.Subresource,
		RequestKind: kind, RequestResource: &res, RequestSubResource: req.Subresource,
		Name: req.Name, Namespace: req.Namespace, Operation: admissionv1.Operation(req.Op),
		UserInfo: authenticationv1.UserInfo{Username: req.User, UID: uid, Groups: groups},
		Object:   obj, OldObject: old,
		DryRun: wireDryRun(req),
	}
}

// wireDryRun: a third of the wire requests are server-side dry runs; they are judged like any other request.
func wireDryRun(req *ReqSpec) *bool {
	if (len(req.Name)+len(req.Namespace)+len(req.User)+len(req.Op))%3 == 0 {
		yes := true
		return &yes
	}
	return nil
}

// AttrsFor returns the Attributes handed to Validate for req.
func AttrsFor(cfg *CfgSpec, req *ReqSpec, log *logger) api.Attributes {
	if req.Wire {
		return wireAttrs{api.RequestAttributes(WireRequest(cfg, req), webhookserver.VerifDeserializer()), log}
	}
	return fakeAttrs{req, log}
}

// ControllerKinds: the 8 pod-bearing types (+ their resources).
var ControllerKinds = []struct{ Kind, Group, Resource string }{
	{"PodTemplate", "", "podtemplates"}, {"ReplicationController", "", "replicationcontrollers"},
	{"ReplicaSet", "apps", "replicasets"}, {"Deployment", "apps", "deployments"}, {"StatefulSet", "apps", "statefulsets"},
	{"DaemonSet", "apps", "daemonsets"}, {"Job", "batch", "jobs"}, {"CronJob", "batch", "cronjobs"},
}

func template(p *corev1.Pod) corev1.PodTemplateSpec {
	return corev1.PodTemplateSpec{ObjectMeta: p.ObjectMeta, Spec: p.Spec}
}

// BuildObject turns an ObjSpec into what Attributes.GetObject returns.
func BuildObject(o *ObjSpec) (runtime.Object, error) {
	switch o.Kind {
	case "decodeerr":
		return nil, errors.New("injected decode failure")
	case "nil":
		return nil, nil
	case "pod":
		return o.Pod, nil
	case "namespace":
		// metadata and status outside the labels must not matter
		return &corev1.Namespace{ObjectMeta: metav1.ObjectMeta{Name: o.NSName, Labels: o.Labels, Generation: o.Generation, ResourceVersion: "4711", UID: "ns-uid",
			Annotations: map[string]string{"pod-security.kubernetes.io/enforce": "privileged", "pod-security.kubernetes.io/exempt": "true"},
			Finalizers:  []string{"kubernetes"}}, Status: corev1.NamespaceStatus{Phase: corev1.NamespaceActive}}, nil
	case "other":
		return &corev1.ConfigMap{ObjectMeta: metav1.ObjectMeta{Name: "cm"}}, nil
	case "controller":
		var t corev1.PodTemplateSpec
		if o.HasTemplate {
			t = template(o.Pod)
		}
		om := metav1.ObjectMeta{Name: "ctl", Generation: o.Generation, Labels: map[string]string{"app": "x"}, ResourceVersion: "42"}
		j := o.CtlJunk
		bit := func(k int) bool { return j&(1<<k) != 0 }
		var zero, three int32 = 0, 3
		replicas := &three
		if bit(1) {
			replicas = &zero
		}
		yes := true
		var suspend *bool
		if bit(0) {
			suspend = &yes
		}
		sel := &metav1.LabelSelector{MatchLabels: map[string]string{"app": "x"}}
		switch o.CtlKind {
		case "PodTemplate":
			return &corev1.PodTemplate{ObjectMeta: om, Template: t}, nil
		case "ReplicationController":
			if !o.HasTemplate {
				return &corev1.ReplicationController{ObjectMeta: om, Spec: corev1.ReplicationControllerSpec{Replicas: replicas}}, nil
			}
			return &corev1.ReplicationController{ObjectMeta: om, Spec: corev1.ReplicationControllerSpec{Replicas: replicas, Template: &t}}, nil
		case "ReplicaSet":
			return &appsv1.ReplicaSet{ObjectMeta: om, Spec: appsv1.ReplicaSetSpec{Replicas: replicas, Selector: sel, Template: t}}, nil
		case "Deployment":
			return &appsv1.Deployment{ObjectMeta: om, Spec: appsv1.DeploymentSpec{Replicas: replicas, Selector: sel, Paused: bit(0), Template: t}}, nil
		case "StatefulSet":
			return &appsv1.StatefulSet{ObjectMeta: om, Spec: appsv1.StatefulSetSpec{Replicas: replicas, Selector: sel, ServiceName: "svc", Template: t}}, nil
		case "DaemonSet":
			return &appsv1.DaemonSet{ObjectMeta: om, Spec: appsv1.DaemonSetSpec{Selector: sel, MinReadySeconds: int32(j), Template: t}}, nil
		case "Job":
			return &batchv1.Job{ObjectMeta: om, Spec: batchv1.JobSpec{Suspend: suspend, Parallelism: replicas, Template: t}}, nil
		case "CronJob":
			return &batchv1.CronJob{ObjectMeta: om, Spec: batchv1.CronJobSpec{Schedule: "* * * * *", Suspend: suspend,
				JobTemplate: batchv1.JobTemplateSpec{Spec: batchv1.JobSpec{Suspend: suspend, Template: t}}}}, nil
		}
	}
	panic("bad ObjSpec " + o.Kind + "/" + o.CtlKind)
}

func levelStr(lv api.LevelVersion) (string, string) { return string(lv.Level), lv.Version.String() }

// NewAdmission builds an Admission for cfg with the given evaluator and fakes.
func NewAdmission(cfg *CfgSpec, ev policy.Evaluator, rec metrics.Recorder, ns admission.NamespaceGetter, lister admission.PodLister) (*admission.Admission, error) {
	el, evv := levelStr(cfg.Defaults.Enforce)
	al, av := levelStr(cfg.Defaults.Audit)
	wl, wv := levelStr(cfg.Defaults.Warn)
	// exemption lists as a decoder leaves them: private backing arrays with spare capacity
	// (code that appends to one list must not be able to disturb another, or this one)
	spare := func(l []string) []string {
		if l == nil {
			return nil
		}
		out := make([]string, len(l), len(l)+4)
		copy(out, l)
		return out
	}
	a := &admission.Admission{
		Configuration: &admissionapi.PodSecurityConfiguration{
			Defaults:   admissionapi.PodSecurityDefaults{Enforce: el, EnforceVersion: evv, Audit: al, AuditVersion: av, Warn: wl, WarnVersion: wv},
			Exemptions: admissionapi.PodSecurityExemptions{Usernames: spare(cfg.ExUsers), Namespaces: spare(cfg.ExNS), RuntimeClasses: spare(cfg.ExRCs)},
		},
		Evaluator: ev, Metrics: rec, PodSpecExtractor: admission.DefaultPodSpecExtractor{}, NamespaceGetter: ns, PodLister: lister,
	}
	if err := a.CompleteConfiguration(); err != nil {
		return nil, err
	}
	if cfg.MaxPods > 0 {
		a.VerifSetNamespaceLimits(cfg.MaxPods, cfg.Timeout)
	}
	return a, nil
}

// Run executes one request against a fresh Admission and returns the observation.
func Run(cfg *CfgSpec, inner policy.Evaluator, req *ReqSpec, w *WorldSpec) (obs Obs) {
	log := &logger{}
	ctx := context.Background()
	var cancels []context.CancelFunc
	defer func() {
		for _, c := range cancels {
			c()
		}
	}()
	obs.T0 = time.Now()
	if req.DeadlineIn != nil {
		var c context.CancelFunc
		ctx, c = context.WithDeadline(ctx, obs.T0.Add(*req.DeadlineIn))
		cancels = append(cancels, c)
	}
	ctx, cancel := context.WithCancel(ctx)
	cancels = append(cancels, cancel)
	ev := &recEvaluator{inner: inner, log: log, cancel: cancel, expire: w.ExpireAfter}
	a, err := NewAdmission(cfg, ev, recMetrics{log}, fakeNS{w, log}, fakeLister{w, log})
	if err != nil {
		obs.Panic = "NewAdmission: " + err.Error()
		return
	}
	func() {
		defer func() {
			if e := recover(); e != nil {
				obs.Panic = fmt.Sprint(e)
			}
		}()
		done := make(chan *admissionv1.AdmissionResponse, 1)
		go func() {
			defer func() {
				if e := recover(); e != nil {
					obs.Panic = fmt.Sprint(e)
					done <- nil
				}
			}()
			done <- a.Validate(ctx, AttrsFor(cfg, req, log))
		}()
		select {
		case r := <-done:
			obs.Resp = r
		case <-time.After(20 * time.Second):
			obs.Panic = "Validate did not return within 20s"
		}
	}()
	obs.Trace = log.events
	obs.Shared = "Fresh"
	for name, p := range admission.VerifSharedResponses() {
		if p == obs.Resp {
			obs.Shared = map[string]string{"allowed": "SharedAllowed", "privileged": "SharedPrivileged", "user": "SharedUser", "namespace": "SharedNamespace", "runtimeClass": "SharedRuntimeClass"}[name]
		}
	}
	return
}

// ---------------------------------------------------------------- terms

func lvTerm(lv api.LevelVersion) string {
	t, ok := enc.LV(lv)
	if !ok {
		return "(LV Privileged (V 99%N 99%N))" // unrepresentable: makes every comparison fail
	}
	return t
}

func objTerm(in *cq.Interner, o *ObjSpec) string {
	switch o.Kind {
	case "decodeerr":
		return cq.App("ODecodeErr", in.S("injected decode failure"))
	case "nil":
		return "ONil"
	case "pod":
		return cq.App("OPod", enc.PodTerm(in, enc.Alpha(&o.Pod.ObjectMeta, &o.Pod.Spec)))
	case "namespace":
		return cq.App("ONamespace", in.S(o.NSName), enc.Labels(in, o.Labels))
	case "other":
		return cq.App("OOther", in.S("ConfigMap"))
	case "controller":
		if !o.HasTemplate {
			if o.CtlKind == "ReplicationController" {
				return cq.App("OController", in.S(o.CtlKind), "None")
			}
			// non-pointer templates: an empty template is still a template
			empty := &corev1.Pod{}
			return cq.App("OController", in.S(o.CtlKind), cq.App("Some", enc.PodTerm(in, enc.Alpha(&empty.ObjectMeta, &empty.Spec))))
		}
		return cq.App("OController", in.S(o.CtlKind), cq.App("Some", enc.PodTerm(in, enc.Alpha(&o.Pod.ObjectMeta, &o.Pod.Spec))))
	}
	panic("objTerm")
}

func opTerm(in *cq.Interner, op string) string {
	switch op {
	case "CREATE":
		return "OpCreate"
	case "UPDATE":
		return "OpUpdate"
	}
	return cq.App("OpOther", in.S(op))
}

const baseNow = int64(1000000000000)

func ReqTerm(in *cq.Interner, r *ReqSpec) string {
	dl := "None"
	if r.DeadlineIn != nil {
		dl = cq.App("Some", cq.Z(baseNow+int64(*r.DeadlineIn)))
	}
	if r.Wire {
		// the request as sent: the model's adapter (Model/Wire.v: attributes_of) turns it into what the library reads
		raw := func(o *ObjSpec) string {
			switch o.Kind {
			case "decodeerr":
				return cq.App("RawUndecodable", in.S("injected decode failure"))
			case "nil":
				return "RawAbsent"
			}
			return cq.App("RawObject", objTerm(in, o))
		}
		return cq.App("attributes_of", cq.App("AdmissionRequest", in.S("wire-uid"), in.S(r.Group), in.S(r.Resource), in.S(r.Subresource),
			in.S(r.Group), in.S(r.Resource), in.S(r.Subresource), in.S(r.Name), in.S(r.Namespace), in.S(r.Op),
			in.S(r.User), in.S(WireUserUID), in.StrList(WireUserGroups), raw(&r.Object), raw(&r.Old)), dl)
	}
	return cq.App("Request", in.S(r.Group), in.S(r.Resource), in.S(r.Subresource), in.S(r.Namespace), in.S(r.Name), in.S(r.User),
		opTerm(in, r.Op), objTerm(in, &r.Object), objTerm(in, &r.Old), dl)
}

func WorldTerm(in *cq.Interner, w *WorldSpec) string {
	ns := "None"
	if !w.NSErr {
		ns = cq.App("Some", enc.Labels(in, w.NSLabels))
	}
	pods := "None"
	if !w.ListErr {
		items := make([]string, len(w.Pods))
		for i, p := range w.Pods {
			items[i] = enc.PodTerm(in, enc.Alpha(&p.ObjectMeta, &p.Spec))
		}
		pods = cq.App("Some", cq.List(items))
	}
	ex := "None"
	if w.ExpireAfter != nil {
		ex = cq.App("Some", fmt.Sprint(*w.ExpireAfter))
	}
	return cq.App("World", ns, in.S(InjectedError(w.ErrKind, "namespace lookup").Error()), pods, ex, cq.Z(baseNow))
}

func CfgTerm(in *cq.Interner, c *CfgSpec) string {
	d, _ := enc.Policy(c.Defaults)
	mp, to := c.MaxPods, c.Timeout
	if mp == 0 {
		mp, to = 3000, time.Second
	}
	return cq.App("Config", d, in.StrList(c.ExNS), in.StrList(c.ExUsers), in.StrList(c.ExRCs), fmt.Sprint(mp), cq.Z(int64(to)))
}

func optZ(p *int32) string {
	if p == nil {
		return "None"
	}
	return cq.App("Some", cq.Z(int64(*p)))
}

// RespTerm projects an AdmissionResponse to the model's response record.
func RespTerm(in *cq.Interner, r *admissionv1.AdmissionResponse, shared string) string {
	code, reason, msg := "None", "", ""
	var causes []string
	if r.Result != nil {
		c := r.Result.Code
		code = optZ(&c)
		reason = string(r.Result.Reason)
		msg = r.Result.Message
		if r.Result.Code == 403 {
			if i := strings.Index(msg, "is forbidden: "); i >= 0 {
				msg = msg[i+len("is forbidden: "):]
			}
		}
		if r.Result.Details != nil && r.Result.Code == 422 {
			for _, c := range r.Result.Details.Causes {
				f := c.Field
				if strings.HasPrefix(f, "metadata.labels[") && strings.HasSuffix(f, "]") {
					f = f[len("metadata.labels[") : len(f)-1]
				}
				causes = append(causes, cq.Pair(in.S(f), in.S("")))
			}
		}
	}
	keys := make([]string, 0, len(r.AuditAnnotations))
	for k := range r.AuditAnnotations {
		keys = append(keys, k)
	}
	sort.Strings(keys)
	var anns []string
	for _, k := range keys {
		anns = append(anns, cq.Pair(in.S(k), in.S(r.AuditAnnotations[k])))
	}
	return cq.App("Response", cq.Bool(r.Allowed), code, in.S(reason), in.S(msg), cq.List(causes), in.StrList(r.Warnings), cq.List(anns), shared)
}

func modeTerm(m string) string {
	switch m {
	case "enforce":
		return "ModeEnforce"
	case "audit":
		return "ModeAudit"
	}
	return "ModeWarn"
}

func TraceTerm(in *cq.Interner, tr []Event) string {
	var items []string
	for _, e := range tr {
		switch e.Kind {
		case "nslookup":
			items = append(items, "EvNsLookup")
		case "decode":
			items = append(items, "EvDecode")
		case "decodeold":
			items = append(items, "EvDecodeOld")
		case "list":
			items = append(items, "(EvList 0%Z)")
		case "eval":
			items = append(items, cq.App("EvEval", lvTerm(e.LV), in.S(e.Pod)))
		case "meval":
			items = append(items, cq.App("MEval", cq.Bool(e.Deny), lvTerm(e.LV), modeTerm(e.Mode)))
		case "mexempt":
			items = append(items, "MExempt")
		case "merror":
			items = append(items, cq.App("MError", cq.Bool(e.Fatal)))
		}
	}
	return cq.List(items)
}

func ObsTerm(in *cq.Interner, o *Obs) string {
	return cq.App("mkobs", RespTerm(in, o.Resp, o.Shared), TraceTerm(in, o.Trace))
}

// DeadlineCheck verifies the deadline the lister saw against the scheduling-proof interval.
func DeadlineCheck(cfg *CfgSpec, req *ReqSpec, o *Obs) string {
	timeout := cfg.Timeout
	if cfg.MaxPods == 0 {
		timeout = time.Second
	}
	for _, e := range o.Trace {
		if e.Kind != "list" {
			continue
		}
		if !e.HasDL {
			return "the context handed to ListPods has no deadline"
		}
		t0, t1 := o.T0, e.At
		min := func(a, b time.Duration) time.Duration {
			if a < b {
				return a
			}
			return b
		}
		var lo, hi time.Time
		if req.DeadlineIn == nil {
			lo, hi = t0.Add(timeout), t1.Add(timeout)
		} else {
			D := t0.Add(*req.DeadlineIn)
			lo = t0.Add(min(timeout, D.Sub(t1)/2))
			hi = t1.Add(min(timeout, D.Sub(t0)/2))
			if D.Before(hi) {
				hi = D
			}
			if D.Before(lo) {
				lo = D
			}
		}
		slack := 2 * time.Millisecond
		if e.Deadline.Before(lo.Add(-slack)) || e.Deadline.After(hi.Add(slack)) {
			return fmt.Sprintf("ListPods context deadline %v outside [%v, %v] (timeout=%v, request deadline in %v)", e.Deadline.Sub(t0), lo.Sub(t0), hi.Sub(t0), timeout, req.DeadlineIn)
		}
	}
	return ""
}

// ---------------------------------------------------------------- long-lived instance (C15)

type worldKey struct{}
type logKey struct{}

// WithWorld attaches the oracle answers of one request to its context, so that a
// single long-lived Admission can serve many requests, also concurrently.
func WithWorld(ctx context.Context, w *WorldSpec) context.Context {
	return context.WithValue(ctx, worldKey{}, w)
}

type ctxNS struct{}

func (ctxNS) GetNamespace(ctx context.Context, name string) (*corev1.Namespace, error) {
	w := ctx.Value(worldKey{}).(*WorldSpec)
	if w.NSErr {
		return nil, InjectedError(w.ErrKind, "namespace lookup")
	}
	return &corev1.Namespace{ObjectMeta: metav1.ObjectMeta{Name: name, Labels: w.NSLabels, ResourceVersion: LabelsRV(w.NSLabels), UID: "ns-uid"}}, nil
}

type ctxLister struct{}

// SlowLister makes the context-driven lister pause, so that concurrent requests overlap inside ListPods.
var SlowLister atomic.Bool

func (ctxLister) ListPods(ctx context.Context, ns string) ([]*corev1.Pod, error) {
	w := ctx.Value(worldKey{}).(*WorldSpec)
	if lg, ok := ctx.Value(logKey{}).(*logger); ok {
		d, has := ctx.Deadline()
		lg.add(Event{Kind: "list", Deadline: d, HasDL: has})
	}
	if SlowLister.Load() {
		time.Sleep(300 * time.Microsecond)
	}
	if w.ListErr {
		return nil, InjectedError(w.ErrKind, "list")
	}
	out := make([]*corev1.Pod, len(w.Pods))
	copy(out, w.Pods)
	return out, nil
}

// LongLived is one Admission serving requests whose oracle answers travel in the context.
type LongLived struct {
	A   *admission.Admission
	Cfg *CfgSpec
	sl  *swapLog
}

func NewLongLived(cfg *CfgSpec, ev policy.Evaluator, rec metrics.Recorder) (*LongLived, error) {
	a, err := NewAdmission(cfg, ev, rec, ctxNS{}, ctxLister{})
	if err != nil {
		return nil, err
	}
	return &LongLived{A: a, Cfg: cfg}, nil
}

// Serve answers one request; the response is returned as handed out (possibly a shared object).
func (l *LongLived) Serve(req *ReqSpec, w *WorldSpec) (resp *admissionv1.AdmissionResponse, shared string, pan string) {
	resp, shared, pan, _ = l.ServeChecked(req, w)
	return
}

// ServeChecked is Serve under the request's own deadline; dl reports a ListPods context deadline
// outside what this request alone (configuration and request deadline) accounts for.
func (l *LongLived) ServeChecked(req *ReqSpec, w *WorldSpec) (resp *admissionv1.AdmissionResponse, shared string, pan string, dl string) {
	defer func() {
		if e := recover(); e != nil {
			pan = fmt.Sprint(e)
		}
	}()
	log := &logger{}
	t0 := time.Now()
	ctx := context.WithValue(WithWorld(context.Background(), w), logKey{}, log)
	if req.DeadlineIn != nil {
		var c context.CancelFunc
		ctx, c = context.WithDeadline(ctx, t0.Add(*req.DeadlineIn))
		defer c()
	}
	resp = l.A.Validate(ctx, AttrsFor(l.Cfg, req, log))
	dl = DeadlineCheck(l.Cfg, req, &Obs{Trace: log.events, T0: t0})
	shared = "Fresh"
	for name, p := range admission.VerifSharedResponses() {
		if p == resp {
			shared = map[string]string{"allowed": "SharedAllowed", "privileged": "SharedPrivileged", "user": "SharedUser", "namespace": "SharedNamespace", "runtimeClass": "SharedRuntimeClass"}[name]
		}
	}
	return
}

// ---------------------------------------------------------------- long-lived instance over real sources (src stream)

// swapLog routes the effect log of a sequentially used long-lived instance to the current request's logger.
type swapLog struct{ p atomic.Pointer[logger] }

func (s *swapLog) add(e Event) {
	if l := s.p.Load(); l != nil {
		l.add(e)
	}
}

type swapEvaluator struct {
	inner policy.Evaluator
	sl    *swapLog
}

func (r swapEvaluator) EvaluatePod(lv api.LevelVersion, meta *metav1.ObjectMeta, spec *corev1.PodSpec) []policy.CheckResult {
	r.sl.add(Event{Kind: "eval", LV: lv, Pod: meta.Name})
	return r.inner.EvaluatePod(lv, meta, spec)
}

type swapMetrics struct{ sl *swapLog }

func (m swapMetrics) RecordEvaluation(d metrics.Decision, lv api.LevelVersion, mode metrics.Mode, _ api.Attributes) {
	m.sl.add(Event{Kind: "meval", Deny: d == metrics.DecisionDeny, LV: lv, Mode: string(mode)})
}
func (m swapMetrics) RecordExemption(api.Attributes) { m.sl.add(Event{Kind: "mexempt"}) }
func (m swapMetrics) RecordError(fatal bool, _ api.Attributes) {
	m.sl.add(Event{Kind: "merror", Fatal: fatal})
}

type logGetter struct {
	inner admission.NamespaceGetter
	sl    *swapLog
}

func (g logGetter) GetNamespace(ctx context.Context, name string) (*corev1.Namespace, error) {
	g.sl.add(Event{Kind: "nslookup"})
	return g.inner.GetNamespace(ctx, name)
}

type logLister struct {
	inner admission.PodLister
	sl    *swapLog
}

func (l logLister) ListPods(ctx context.Context, ns string) ([]*corev1.Pod, error) {
	d, has := ctx.Deadline()
	l.sl.add(Event{Kind: "list", Deadline: d, HasDL: has})
	return l.inner.ListPods(ctx, ns)
}

// NewLongLivedWith builds a long-lived Admission around the given (real) namespace getter and pod
// lister; every dependency, evaluator and metrics call is logged to the request being served.
// The instance must be used sequentially.
func NewLongLivedWith(cfg *CfgSpec, ev policy.Evaluator, _ metrics.Recorder, getter admission.NamespaceGetter, lister admission.PodLister) (*LongLived, error) {
	sl := &swapLog{}
	a, err := NewAdmission(cfg, swapEvaluator{ev, sl}, swapMetrics{sl}, logGetter{getter, sl}, logLister{lister, sl})
	if err != nil {
		return nil, err
	}
	return &LongLived{A: a, Cfg: cfg, sl: sl}, nil
}

// ServeObs answers one request on an instance built by NewLongLivedWith and returns its observation.
func (l *LongLived) ServeObs(ctx context.Context, req *ReqSpec) (obs Obs) {
	defer func() {
		if e := recover(); e != nil {
			obs.Panic = fmt.Sprint(e)
		}
	}()
	log := &logger{}
	l.sl.p.Store(log)
	defer l.sl.p.Store(nil)
	obs.T0 = time.Now()
	obs.Resp = l.A.Validate(ctx, AttrsFor(l.Cfg, req, log))
	obs.Trace = log.events
	obs.Shared = "Fresh"
	for name, p := range admission.VerifSharedResponses() {
		if p == obs.Resp {
			obs.Shared = map[string]string{"allowed": "SharedAllowed", "privileged": "SharedPrivileged", "user": "SharedUser", "namespace": "SharedNamespace", "runtimeClass": "SharedRuntimeClass"}[name]
		}
	}
	return
}

// ---------------------------------------------------------------- dry-run deadline through the webhook (C12)

// WebDeadlineProbe posts req as an AdmissionReview to HandleValidate (with ?timeout=d when d != nil) on a
// server around an Admission with logging fakes, and checks the deadline of the context ListPods received
// against the webhook's timeout: it must be min(configured budget, half of the remaining request time)
// away, within bounds that only widen with scheduling delays.  Returns "" when fine or when no list happened.
func WebDeadlineProbe(cfg *CfgSpec, ev policy.Evaluator, req *ReqSpec, w *WorldSpec, d *time.Duration) (problem string, status int, listed bool) {
	log := &logger{}
	a, err := NewAdmission(cfg, ev, NullMetrics{}, fakeNS{w, log}, fakeLister{w, log})
	if err != nil {
		return "NewAdmission: " + err.Error(), 0, false
	}
	srv := webhookserver.VerifNewServer(a)
	review := admissionv1.AdmissionReview{TypeMeta: metav1.TypeMeta{APIVersion: "admission.k8s.io/v1", Kind: "AdmissionReview"}, Request: WireRequest(cfg, req)}
	for _, raw := range []*[]byte{&review.Request.Object.Raw, &review.Request.OldObject.Raw} {
		if *raw != nil && !json.Valid(*raw) {
			*raw = []byte(`{"apiVersion":"example.test/v9","kind":"NoSuchKind","metadata":{"name":"x"}}`)
		}
	}
	body, _ := json.Marshal(review)
	url := "/"
	if d != nil {
		url = "/?timeout=" + d.String()
	}
	hreq := httptest.NewRequest(http.MethodPost, url, bytes.NewReader(body))
	hreq.Header.Set("Content-Type", "application/json")
	rec := httptest.NewRecorder()
	t0 := time.Now()
	func() {
		defer func() {
			if e := recover(); e != nil {
				problem = fmt.Sprint("HandleValidate panicked: ", e)
			}
		}()
		srv.HandleValidate(rec, hreq)
	}()
	if problem != "" {
		return problem, rec.Code, false
	}
	timeout := cfg.Timeout
	if cfg.MaxPods == 0 {
		timeout = time.Second
	}
	min := func(x, y time.Duration) time.Duration {
		if x < y {
			return x
		}
		return y
	}
	for _, e := range log.events {
		if e.Kind != "list" {
			continue
		}
		listed = true
		if !e.HasDL {
			return "the context handed to ListPods has no deadline", rec.Code, true
		}
		lag := e.At.Sub(t0)
		slack := 2 * time.Millisecond
		var lo, hi time.Time
		if d == nil {
			lo, hi = t0.Add(timeout), e.At.Add(timeout)
		} else {
			lo = t0.Add(min(timeout, (*d-lag)/2))
			hi = e.At.Add(min(timeout, (*d+lag)/2))
			if cap := e.At.Add(*d); cap.Before(hi) {
				hi = cap
			}
		}
		if e.Deadline.Before(lo.Add(-slack)) || e.Deadline.After(hi.Add(slack)) {
			return fmt.Sprintf("through the webhook the ListPods context deadline is %v after the request arrived, outside [%v, %v] (budget %v, ?timeout=%v, list called after %v)",
				e.Deadline.Sub(t0), lo.Sub(t0), hi.Sub(t0), timeout, d, lag), rec.Code, true
		}
	}
	return "", rec.Code, listed
}
