// Package podgen builds the three pod streams of DESIGN.md section 5:
// small-scope enumeration (every single-location edit of a compliant base pod,
// plus pod-level x container-level pairs), random structured pods, and a
// malformed stream (pods API validation would reject).
package podgen

import (
	"fmt"
	"math/rand"
	"strings"

	corev1 "k8s.io/api/core/v1"
	"k8s.io/apimachinery/pkg/api/resource"
	metav1 "k8s.io/apimachinery/pkg/apis/meta/v1"
	"k8s.io/apimachinery/pkg/types"
)

func bp(b bool) *bool     { return &b }
func ip(i int64) *int64   { return &i }
func sp(s string) *string { return &s }

// Named is a generated pod with a description of how it was made.
type Named struct {
	Desc      string
	Pod       *corev1.Pod
	Malformed bool // violates the API-validity hypotheses (two volume sources / linux fields on windows)
}

var CapPool = []string{"AUDIT_WRITE", "CHOWN", "DAC_OVERRIDE", "FOWNER", "FSETID", "KILL", "MKNOD", "NET_BIND_SERVICE", "SETFCAP", "SETGID", "SETPCAP", "SETUID", "SYS_CHROOT",
	"NET_RAW", "SYS_ADMIN", "ALL", "CAP_CHOWN", "chown", "NET_BIND_SERVICE ", "", "NET_BIND", "SYS_PTRACE", "NET_ADMIN", "BPF"}
var DropPool = [][]string{nil, {}, {"ALL"}, {"all"}, {"NET_RAW"}, {"CHOWN", "ALL"}, {"ALL", "ALL"}, {"ALL "}}
var ProfileTypes = []string{"RuntimeDefault", "Localhost", "Unconfined", "", "runtimedefault", "Localhost ", "RuntimeDefault\n"}
var AppArmorAnnValues = []string{"runtime/default", "localhost/foo", "localhost/", "unconfined", "", "localhost", "runtime/default ", "Localhost/x", "docker/default", "a\"b\\c"}
var SeccompAnnValues = []string{"runtime/default", "docker/default", "localhost/x", "localhost/", "unconfined", "", "localhost", "Runtime/default", "a\"b"}
var ProcMounts = []string{"Default", "Unmasked", "", "default"}
var SELinuxTypes = []string{"", "container_t", "container_init_t", "container_kvm_t", "container_engine_t", "spc_t", "Container_t", "container_t ", "unconfined_t"}
var SysctlPool = []string{"kernel.shm_rmid_forced", "net.ipv4.ip_local_port_range", "net.ipv4.tcp_syncookies", "net.ipv4.ping_group_range", "net.ipv4.ip_unprivileged_port_start",
	"net.ipv4.ip_local_reserved_ports", "net.ipv4.tcp_keepalive_time", "net.ipv4.tcp_fin_timeout", "net.ipv4.tcp_keepalive_intvl", "net.ipv4.tcp_keepalive_probes",
	"net.ipv4.tcp_rmem", "net.ipv4.tcp_wmem", "kernel.msgmax", "net.ipv4.tcp_syncookies ", "net.core.somaxconn", "kernel.shm_rmid_forced.x", ""}
var OSPool = []string{"linux", "windows", "Windows", ""}
var NamePool = []string{"a", "b", "c1", "c-2", "init", "a", "web", "b", "sidecar", "x", "istio-proxy", "istio-init", "pause", "kube-proxy", "linkerd-proxy"}

// VolumeNamePool mixes plain names with names the platform generates itself
// (a check must not special-case an object by its name).
var VolumeNamePool = []string{"data", "v", "kube-api-access-x7k2p", "default-token-abcde", "istio-envoy", "tmp", "kube-api-access-", "config", "host", "docker-sock"}

const AppArmorPrefix = "container.apparmor.security.beta.kubernetes.io/"
const SeccompPodKey = "seccomp.security.alpha.kubernetes.io/pod"
const SeccompContainerPrefix = "container.seccomp.security.alpha.kubernetes.io/"

func compliantSC() *corev1.SecurityContext {
	return &corev1.SecurityContext{AllowPrivilegeEscalation: bp(false), Capabilities: &corev1.Capabilities{Drop: []corev1.Capability{"ALL"}}}
}

// Base: compliant with restricted:latest; one container of each kind.
func Base() *corev1.Pod {
	// every generated pod carries the same uid and resourceVersion (like the successive revisions an UPDATE
	// proposes for one stored object): nothing may be remembered under that identity
	p := &corev1.Pod{ObjectMeta: metav1.ObjectMeta{Name: "base", Namespace: "ns", UID: "pod-uid-1", ResourceVersion: "7"}}
	p.Spec.SecurityContext = &corev1.PodSecurityContext{RunAsNonRoot: bp(true), SeccompProfile: &corev1.SeccompProfile{Type: "RuntimeDefault"}}
	p.Spec.InitContainers = []corev1.Container{{Name: "i", Image: "img-i", SecurityContext: compliantSC()}}
	p.Spec.Containers = []corev1.Container{{Name: "c", Image: "img-c", SecurityContext: compliantSC()}}
	p.Spec.EphemeralContainers = []corev1.EphemeralContainer{{EphemeralContainerCommon: corev1.EphemeralContainerCommon{Name: "e", Image: "img-e", SecurityContext: compliantSC()}}}
	return p
}

// BaseWindows: os=windows pod with no Linux-only fields at all.
func BaseWindows() *corev1.Pod {
	p := &corev1.Pod{ObjectMeta: metav1.ObjectMeta{Name: "win", Namespace: "ns", UID: "pod-uid-1", ResourceVersion: "7"}}
	p.Spec.OS = &corev1.PodOS{Name: corev1.Windows}
	p.Spec.SecurityContext = &corev1.PodSecurityContext{RunAsNonRoot: bp(true)}
	p.Spec.InitContainers = []corev1.Container{{Name: "i", Image: "img-i"}}
	p.Spec.Containers = []corev1.Container{{Name: "c", Image: "img-c"}}
	return p
}

type contEdit struct {
	name string
	f    func(c *corev1.Container)
}

func ensureSC(c *corev1.Container) *corev1.SecurityContext {
	if c.SecurityContext == nil {
		c.SecurityContext = &corev1.SecurityContext{}
	}
	return c.SecurityContext
}

func containerEdits() []contEdit {
	var es []contEdit
	add := func(n string, f func(c *corev1.Container)) { es = append(es, contEdit{n, f}) }
	add("sc=nil", func(c *corev1.Container) { c.SecurityContext = nil })
	add("sc=empty", func(c *corev1.Container) { c.SecurityContext = &corev1.SecurityContext{} })
	for _, v := range []*bool{nil, bp(true), bp(false)} {
		v := v
		add(fmt.Sprintf("privileged=%v", fmtB(v)), func(c *corev1.Container) { ensureSC(c).Privileged = v })
		add(fmt.Sprintf("allowPE=%v", fmtB(v)), func(c *corev1.Container) { ensureSC(c).AllowPrivilegeEscalation = v })
		add(fmt.Sprintf("runAsNonRoot=%v", fmtB(v)), func(c *corev1.Container) { ensureSC(c).RunAsNonRoot = v })
	}
	for _, v := range []*int64{nil, ip(0), ip(1000), ip(-1)} {
		v := v
		add(fmt.Sprintf("runAsUser=%v", fmtI(v)), func(c *corev1.Container) { ensureSC(c).RunAsUser = v })
	}
	for _, v := range ProcMounts {
		v := v
		add("procMount="+v, func(c *corev1.Container) { pm := corev1.ProcMountType(v); ensureSC(c).ProcMount = &pm })
	}
	add("caps=nil", func(c *corev1.Container) { ensureSC(c).Capabilities = nil })
	for _, v := range CapPool {
		v := v
		add("caps.add="+v, func(c *corev1.Container) {
			ensureSC(c).Capabilities = &corev1.Capabilities{Add: []corev1.Capability{corev1.Capability(v)}, Drop: []corev1.Capability{"ALL"}}
		})
	}
	add("caps.add=NET_RAW,CHOWN,SYS_ADMIN,NET_RAW", func(c *corev1.Container) {
		ensureSC(c).Capabilities = &corev1.Capabilities{Add: []corev1.Capability{"NET_RAW", "CHOWN", "SYS_ADMIN", "NET_RAW"}, Drop: []corev1.Capability{"ALL"}}
	})
	for i, d := range DropPool {
		d := d
		add(fmt.Sprintf("caps.drop#%d", i), func(c *corev1.Container) {
			caps := &corev1.Capabilities{}
			if d != nil {
				caps.Drop = []corev1.Capability{}
				for _, x := range d {
					caps.Drop = append(caps.Drop, corev1.Capability(x))
				}
			}
			ensureSC(c).Capabilities = caps
		})
	}
	for _, v := range ProfileTypes {
		v := v
		add("seccomp="+v, func(c *corev1.Container) {
			ensureSC(c).SeccompProfile = &corev1.SeccompProfile{Type: corev1.SeccompProfileType(v)}
		})
		add("apparmor="+v, func(c *corev1.Container) {
			ensureSC(c).AppArmorProfile = &corev1.AppArmorProfile{Type: corev1.AppArmorProfileType(v)}
		})
	}
	for _, v := range SELinuxTypes {
		v := v
		add("selinux.type="+v, func(c *corev1.Container) { ensureSC(c).SELinuxOptions = &corev1.SELinuxOptions{Type: v, Level: "s0"} })
	}
	add("selinux.user", func(c *corev1.Container) { ensureSC(c).SELinuxOptions = &corev1.SELinuxOptions{User: "system_u"} })
	add("selinux.role", func(c *corev1.Container) { ensureSC(c).SELinuxOptions = &corev1.SELinuxOptions{Role: "system_r"} })
	add("selinux.all", func(c *corev1.Container) {
		ensureSC(c).SELinuxOptions = &corev1.SELinuxOptions{Type: "spc_t", User: "u", Role: "r"}
	})
	add("selinux.levelonly", func(c *corev1.Container) { ensureSC(c).SELinuxOptions = &corev1.SELinuxOptions{Level: "s0:c1"} })
	add("win=empty", func(c *corev1.Container) { ensureSC(c).WindowsOptions = &corev1.WindowsSecurityContextOptions{} })
	add("win.hostProcess=true", func(c *corev1.Container) {
		ensureSC(c).WindowsOptions = &corev1.WindowsSecurityContextOptions{HostProcess: bp(true)}
	})
	add("win.hostProcess=false", func(c *corev1.Container) {
		ensureSC(c).WindowsOptions = &corev1.WindowsSecurityContextOptions{HostProcess: bp(false)}
	})
	for _, ports := range [][]int32{{0}, {80}, {80, 80}, {8080, 9}, {0, 443}, {-1}, {65535, 1}} {
		ports := ports
		add(fmt.Sprintf("hostPorts=%v", ports), func(c *corev1.Container) {
			c.Ports = nil
			for _, p := range ports {
				c.Ports = append(c.Ports, corev1.ContainerPort{HostPort: p, ContainerPort: 8000})
			}
		})
	}
	return es
}

func fmtB(b *bool) string {
	if b == nil {
		return "nil"
	}
	return fmt.Sprint(*b)
}
func fmtI(b *int64) string {
	if b == nil {
		return "nil"
	}
	return fmt.Sprint(*b)
}

type podEdit struct {
	name      string
	f         func(p *corev1.Pod)
	malformed bool
}

func ensurePSC(p *corev1.Pod) *corev1.PodSecurityContext {
	if p.Spec.SecurityContext == nil {
		p.Spec.SecurityContext = &corev1.PodSecurityContext{}
	}
	return p.Spec.SecurityContext
}

// SetVolumeSource sets the named member of the volume source to a fresh zero value.
func SetVolumeSource(v *corev1.Volume, name string) {
	switch name {
	case "hostPath":
		v.HostPath = &corev1.HostPathVolumeSource{Path: "/x"}
	case "emptyDir":
		v.EmptyDir = &corev1.EmptyDirVolumeSource{}
	case "gcePersistentDisk":
		v.GCEPersistentDisk = &corev1.GCEPersistentDiskVolumeSource{}
	case "awsElasticBlockStore":
		v.AWSElasticBlockStore = &corev1.AWSElasticBlockStoreVolumeSource{}
	case "gitRepo":
		v.GitRepo = &corev1.GitRepoVolumeSource{}
	case "secret":
		v.Secret = &corev1.SecretVolumeSource{}
	case "nfs":
		v.NFS = &corev1.NFSVolumeSource{}
	case "iscsi":
		v.ISCSI = &corev1.ISCSIVolumeSource{}
	case "glusterfs":
		v.Glusterfs = &corev1.GlusterfsVolumeSource{}
	case "persistentVolumeClaim":
		v.PersistentVolumeClaim = &corev1.PersistentVolumeClaimVolumeSource{}
	case "rbd":
		v.RBD = &corev1.RBDVolumeSource{}
	case "flexVolume":
		v.FlexVolume = &corev1.FlexVolumeSource{}
	case "cinder":
		v.Cinder = &corev1.CinderVolumeSource{}
	case "cephfs":
		v.CephFS = &corev1.CephFSVolumeSource{}
	case "flocker":
		v.Flocker = &corev1.FlockerVolumeSource{}
	case "downwardAPI":
		v.DownwardAPI = &corev1.DownwardAPIVolumeSource{}
	case "fc":
		v.FC = &corev1.FCVolumeSource{}
	case "azureFile":
		v.AzureFile = &corev1.AzureFileVolumeSource{}
	case "configMap":
		v.ConfigMap = &corev1.ConfigMapVolumeSource{}
	case "vsphereVolume":
		v.VsphereVolume = &corev1.VsphereVirtualDiskVolumeSource{}
	case "quobyte":
		v.Quobyte = &corev1.QuobyteVolumeSource{}
	case "azureDisk":
		v.AzureDisk = &corev1.AzureDiskVolumeSource{}
	case "photonPersistentDisk":
		v.PhotonPersistentDisk = &corev1.PhotonPersistentDiskVolumeSource{}
	case "projected":
		v.Projected = &corev1.ProjectedVolumeSource{}
	case "portworxVolume":
		v.PortworxVolume = &corev1.PortworxVolumeSource{}
	case "scaleIO":
		v.ScaleIO = &corev1.ScaleIOVolumeSource{}
	case "storageos":
		v.StorageOS = &corev1.StorageOSVolumeSource{}
	case "csi":
		v.CSI = &corev1.CSIVolumeSource{}
	case "ephemeral":
		v.Ephemeral = &corev1.EphemeralVolumeSource{}
	case "image":
		v.Image = &corev1.ImageVolumeSource{}
	default:
		panic("unknown volume source " + name)
	}
}

var VolumeKinds = []string{"hostPath", "emptyDir", "gcePersistentDisk", "awsElasticBlockStore", "gitRepo", "secret", "nfs", "iscsi", "glusterfs", "persistentVolumeClaim", "rbd",
	"flexVolume", "cinder", "cephfs", "flocker", "downwardAPI", "fc", "azureFile", "configMap", "vsphereVolume", "quobyte", "azureDisk", "photonPersistentDisk", "projected",
	"portworxVolume", "scaleIO", "storageos", "csi", "ephemeral", "image"}

func podEdits() []podEdit {
	var es []podEdit
	add := func(n string, f func(p *corev1.Pod)) { es = append(es, podEdit{n, f, false}) }
	addM := func(n string, f func(p *corev1.Pod)) { es = append(es, podEdit{n, f, true}) }
	add("identity", func(p *corev1.Pod) {})
	add("hostNetwork", func(p *corev1.Pod) { p.Spec.HostNetwork = true })
	add("hostPID", func(p *corev1.Pod) { p.Spec.HostPID = true })
	add("hostIPC", func(p *corev1.Pod) { p.Spec.HostIPC = true })
	add("hostNetwork+IPC", func(p *corev1.Pod) { p.Spec.HostNetwork = true; p.Spec.HostIPC = true })
	add("psc=nil", func(p *corev1.Pod) { p.Spec.SecurityContext = nil })
	for _, v := range []*bool{nil, bp(true), bp(false)} {
		v := v
		add("pod.runAsNonRoot="+fmtB(v), func(p *corev1.Pod) { ensurePSC(p).RunAsNonRoot = v })
		add("hostUsers="+fmtB(v), func(p *corev1.Pod) { p.Spec.HostUsers = v })
	}
	for _, v := range []*int64{nil, ip(0), ip(1000)} {
		v := v
		add("pod.runAsUser="+fmtI(v), func(p *corev1.Pod) { ensurePSC(p).RunAsUser = v })
	}
	add("pod.seccomp=nil", func(p *corev1.Pod) { ensurePSC(p).SeccompProfile = nil })
	for _, v := range ProfileTypes {
		v := v
		add("pod.seccomp="+v, func(p *corev1.Pod) {
			ensurePSC(p).SeccompProfile = &corev1.SeccompProfile{Type: corev1.SeccompProfileType(v)}
		})
		add("pod.apparmor="+v, func(p *corev1.Pod) {
			ensurePSC(p).AppArmorProfile = &corev1.AppArmorProfile{Type: corev1.AppArmorProfileType(v)}
		})
	}
	for _, v := range SELinuxTypes {
		v := v
		add("pod.selinux.type="+v, func(p *corev1.Pod) { ensurePSC(p).SELinuxOptions = &corev1.SELinuxOptions{Type: v} })
	}
	add("pod.selinux.user", func(p *corev1.Pod) { ensurePSC(p).SELinuxOptions = &corev1.SELinuxOptions{User: "u"} })
	add("pod.selinux.role", func(p *corev1.Pod) { ensurePSC(p).SELinuxOptions = &corev1.SELinuxOptions{Role: "r"} })
	for _, v := range SysctlPool {
		v := v
		add("sysctl="+v, func(p *corev1.Pod) { ensurePSC(p).Sysctls = []corev1.Sysctl{{Name: v, Value: "1"}} })
	}
	add("sysctls=many", func(p *corev1.Pod) {
		ensurePSC(p).Sysctls = []corev1.Sysctl{{Name: "kernel.msgmax"}, {Name: "net.ipv4.tcp_rmem"}, {Name: "kernel.msgmax"}, {Name: "net.ipv4.tcp_syncookies"}, {Name: "a.b"}}
	})
	add("pod.win=empty", func(p *corev1.Pod) { ensurePSC(p).WindowsOptions = &corev1.WindowsSecurityContextOptions{} })
	add("pod.win.hostProcess=true", func(p *corev1.Pod) {
		ensurePSC(p).WindowsOptions = &corev1.WindowsSecurityContextOptions{HostProcess: bp(true)}
	})
	add("pod.win.hostProcess=false", func(p *corev1.Pod) {
		ensurePSC(p).WindowsOptions = &corev1.WindowsSecurityContextOptions{HostProcess: bp(false)}
	})
	add("os=nil", func(p *corev1.Pod) { p.Spec.OS = nil })
	for _, v := range OSPool {
		v := v
		e := podEdit{"os=" + v, func(p *corev1.Pod) { p.Spec.OS = &corev1.PodOS{Name: corev1.OSName(v)} }, v == "windows"}
		es = append(es, e) // base pod has linux-only fields: windows edit of the linux base is malformed
	}
	for _, k := range VolumeKinds {
		k := k
		add("volume="+k, func(p *corev1.Pod) {
			v := corev1.Volume{Name: "vol-" + k}
			SetVolumeSource(&v, k)
			p.Spec.Volumes = append(p.Spec.Volumes, v)
		})
	}
	for _, nm := range VolumeNamePool {
		for _, k := range []string{"hostPath", "nfs", "emptyDir"} {
			nm, k := nm, k
			add("volume="+k+"@"+nm, func(p *corev1.Pod) {
				v := corev1.Volume{Name: nm}
				SetVolumeSource(&v, k)
				p.Spec.Volumes = append(p.Spec.Volumes, v)
			})
		}
	}
	for _, nm := range []string{"istio-proxy", "istio-init", "pause", "kube-proxy"} {
		nm := nm
		add("container-name="+nm, func(p *corev1.Pod) {
			t := true
			p.Spec.Containers = append(p.Spec.Containers, corev1.Container{Name: nm, Image: "img", SecurityContext: &corev1.SecurityContext{Privileged: &t, Capabilities: &corev1.Capabilities{Add: []corev1.Capability{"NET_ADMIN"}}}})
		})
	}
	add("volume=none", func(p *corev1.Pod) { p.Spec.Volumes = append(p.Spec.Volumes, corev1.Volume{Name: "nosource"}) })
	add("volumes=mixed", func(p *corev1.Pod) {
		for _, k := range []string{"nfs", "emptyDir", "hostPath", "nfs", "image"} {
			v := corev1.Volume{Name: "v-" + k}
			SetVolumeSource(&v, k)
			p.Spec.Volumes = append(p.Spec.Volumes, v)
		}
	})
	addM("volume=emptyDir+hostPath", func(p *corev1.Pod) {
		v := corev1.Volume{Name: "two"}
		SetVolumeSource(&v, "emptyDir")
		SetVolumeSource(&v, "hostPath")
		p.Spec.Volumes = append(p.Spec.Volumes, v)
	})
	addM("volume=secret+nfs", func(p *corev1.Pod) {
		v := corev1.Volume{Name: "two"}
		SetVolumeSource(&v, "secret")
		SetVolumeSource(&v, "nfs")
		p.Spec.Volumes = append(p.Spec.Volumes, v)
	})
	addM("volume=gitRepo+hostPath", func(p *corev1.Pod) {
		v := corev1.Volume{Name: "two"}
		SetVolumeSource(&v, "gitRepo")
		SetVolumeSource(&v, "hostPath")
		p.Spec.Volumes = append(p.Spec.Volumes, v)
	})
	ann := func(k, v string) func(p *corev1.Pod) {
		return func(p *corev1.Pod) {
			if p.Annotations == nil {
				p.Annotations = map[string]string{}
			}
			p.Annotations[k] = v
		}
	}
	for _, v := range AppArmorAnnValues {
		for _, cn := range []string{"c", "i", "e", "nosuch", ""} {
			add("ann.apparmor/"+cn+"="+v, ann(AppArmorPrefix+cn, v))
		}
	}
	for _, v := range SeccompAnnValues {
		add("ann.seccomp.pod="+v, ann(SeccompPodKey, v))
		for _, cn := range []string{"c", "i", "e", "nosuch"} {
			add("ann.seccomp/"+cn+"="+v, ann(SeccompContainerPrefix+cn, v))
		}
	}
	add("ann.multi", func(p *corev1.Pod) {
		p.Annotations = map[string]string{AppArmorPrefix + "c": "unconfined", AppArmorPrefix + "zz": "bad", AppArmorPrefix + "a": "worse",
			SeccompPodKey: "unconfined", SeccompContainerPrefix + "c": "bad", SeccompContainerPrefix + "i": "unconfined", "other": "x"}
	})
	add("ann.prefix-nearmiss", ann("container.apparmor.security.beta.kubernetes.io", "unconfined"))
	add("ann.prefix-nearmiss2", ann("xcontainer.apparmor.security.beta.kubernetes.io/c", "unconfined"))
	return es
}

func kindContainer(p *corev1.Pod, kind int) *corev1.Container {
	switch kind {
	case 0:
		return &p.Spec.InitContainers[0]
	case 1:
		return &p.Spec.Containers[0]
	default:
		return (*corev1.Container)(&p.Spec.EphemeralContainers[0].EphemeralContainerCommon)
	}
}

var kindNames = []string{"init", "container", "ephemeral"}

// Enumerate builds the small-scope enumeration stream.
func Enumerate() []Named {
	var out []Named
	for _, e := range podEdits() {
		p := Base()
		e.f(p)
		out = append(out, Named{Desc: "base+" + e.name, Pod: p, Malformed: e.malformed})
	}
	ces := containerEdits()
	for kind := 0; kind < 3; kind++ {
		for _, e := range ces {
			p := Base()
			e.f(kindContainer(p, kind))
			out = append(out, Named{Desc: "base+" + kindNames[kind] + "." + e.name, Pod: p})
		}
	}
	// pod-level value x container-level value, for the two controls where the pod level covers containers
	bvals := []*bool{nil, bp(true), bp(false)}
	for _, pv := range bvals {
		for _, cv := range bvals {
			for kind := 0; kind < 3; kind++ {
				p := Base()
				ensurePSC(p).RunAsNonRoot = pv
				ensureSC(kindContainer(p, kind)).RunAsNonRoot = cv
				out = append(out, Named{Desc: fmt.Sprintf("pair.runAsNonRoot pod=%s %s=%s", fmtB(pv), kindNames[kind], fmtB(cv)), Pod: p})
			}
		}
	}
	svals := []string{"<nil>", "RuntimeDefault", "Localhost", "Unconfined", ""}
	for _, pv := range svals {
		for _, cv := range svals {
			for kind := 0; kind < 3; kind++ {
				p := Base()
				if pv == "<nil>" {
					ensurePSC(p).SeccompProfile = nil
				} else {
					ensurePSC(p).SeccompProfile = &corev1.SeccompProfile{Type: corev1.SeccompProfileType(pv)}
				}
				if cv != "<nil>" {
					ensureSC(kindContainer(p, kind)).SeccompProfile = &corev1.SeccompProfile{Type: corev1.SeccompProfileType(cv)}
				}
				out = append(out, Named{Desc: fmt.Sprintf("pair.seccomp pod=%s %s=%s", pv, kindNames[kind], cv), Pod: p})
			}
		}
	}
	// more cross products of settings that can mask one another within one control
	avals := []string{"<nil>", "RuntimeDefault", "Localhost", "Unconfined"}
	setAA := func(v string) *corev1.AppArmorProfile {
		if v == "<nil>" {
			return nil
		}
		return &corev1.AppArmorProfile{Type: corev1.AppArmorProfileType(v)}
	}
	for _, pv := range avals {
		for _, cv := range avals {
			for kind := 0; kind < 3; kind++ {
				p := Base()
				ensurePSC(p).AppArmorProfile = setAA(pv)
				ensureSC(kindContainer(p, kind)).AppArmorProfile = setAA(cv)
				out = append(out, Named{Desc: fmt.Sprintf("pair.apparmor pod=%s %s=%s", pv, kindNames[kind], cv), Pod: p})
			}
			for _, av := range []string{"runtime/default", "unconfined", "localhost/foo", "docker/default"} {
				p := Base()
				ensurePSC(p).AppArmorProfile = setAA(pv)
				ensureSC(&p.Spec.Containers[0]).AppArmorProfile = setAA(cv)
				if p.Annotations == nil {
					p.Annotations = map[string]string{}
				}
				p.Annotations[AppArmorPrefix+p.Spec.Containers[0].Name] = av
				out = append(out, Named{Desc: fmt.Sprintf("pair.apparmor pod=%s container=%s annotation=%s", pv, cv, av), Pod: p})
			}
		}
	}
	for _, pv := range []string{"<nil>", "RuntimeDefault", "Unconfined"} {
		for _, pa := range []string{"<none>", "runtime/default", "unconfined"} {
			for _, ca := range []string{"<none>", "runtime/default", "unconfined"} {
				p := Base()
				if pv == "<nil>" {
					ensurePSC(p).SeccompProfile = nil
				} else {
					ensurePSC(p).SeccompProfile = &corev1.SeccompProfile{Type: corev1.SeccompProfileType(pv)}
				}
				if p.Annotations == nil {
					p.Annotations = map[string]string{}
				}
				if pa != "<none>" {
					p.Annotations["seccomp.security.alpha.kubernetes.io/pod"] = pa
				}
				if ca != "<none>" {
					p.Annotations["container.seccomp.security.alpha.kubernetes.io/"+p.Spec.Containers[0].Name] = ca
				}
				out = append(out, Named{Desc: fmt.Sprintf("pair.seccomp pod=%s annotation.pod=%s annotation.container=%s", pv, pa, ca), Pod: p})
			}
		}
	}
	tvals := []string{"<nil>", "container_t", "spc_t"}
	setSE := func(v string) *corev1.SELinuxOptions {
		if v == "<nil>" {
			return nil
		}
		return &corev1.SELinuxOptions{Type: v}
	}
	uvals := []*int64{nil, ip(0), ip(1000)}
	for i, pv := range tvals {
		for j, cv := range tvals {
			for kind := 0; kind < 3; kind++ {
				p := Base()
				ensurePSC(p).SELinuxOptions = setSE(pv)
				ensureSC(kindContainer(p, kind)).SELinuxOptions = setSE(cv)
				out = append(out, Named{Desc: fmt.Sprintf("pair.selinux pod=%s %s=%s", pv, kindNames[kind], cv), Pod: p})
				q := Base()
				ensurePSC(q).RunAsUser = uvals[i]
				ensureSC(kindContainer(q, kind)).RunAsUser = uvals[j]
				out = append(out, Named{Desc: fmt.Sprintf("pair.runAsUser pod=%s %s=%s", fmtI(uvals[i]), kindNames[kind], fmtI(uvals[j])), Pod: q})
			}
		}
	}
	for _, addv := range [][]corev1.Capability{nil, {"NET_BIND_SERVICE"}, {"SYS_ADMIN"}, {"NET_BIND_SERVICE", "CHOWN"}} {
		for _, dropv := range [][]corev1.Capability{nil, {"ALL"}, {"NET_RAW"}} {
			for kind := 0; kind < 3; kind++ {
				p := Base()
				ensureSC(kindContainer(p, kind)).Capabilities = &corev1.Capabilities{Add: addv, Drop: dropv}
				out = append(out, Named{Desc: fmt.Sprintf("pair.caps %s add=%v drop=%v", kindNames[kind], addv, dropv), Pod: p})
			}
		}
	}
	// two containers of one kind: the second must be judged like the first
	for _, e := range ces {
		p := Base()
		extra := p.Spec.Containers[0].DeepCopy()
		extra.Name = "second"
		e.f(extra)
		p.Spec.Containers = append(p.Spec.Containers, *extra)
		out = append(out, Named{Desc: "base+container[1]." + e.name, Pod: p})
		q := Base()
		ex2 := q.Spec.EphemeralContainers[0].DeepCopy()
		ex2.Name = "debug-first"
		e.f((*corev1.Container)(&ex2.EphemeralContainerCommon))
		q.Spec.EphemeralContainers = append([]corev1.EphemeralContainer{*ex2}, q.Spec.EphemeralContainers...)
		out = append(out, Named{Desc: "base+ephemeral[0 of 2]." + e.name, Pod: q})
	}
	// windows base and its edits
	out = append(out, Named{Desc: "windows", Pod: BaseWindows()})
	for _, e := range ces {
		p := BaseWindows()
		e.f(&p.Spec.Containers[0])
		mal := false
		if sc := p.Spec.Containers[0].SecurityContext; sc != nil && (sc.Capabilities != nil || sc.SeccompProfile != nil) {
			mal = true
		}
		out = append(out, Named{Desc: "windows+container." + e.name, Pod: p, Malformed: mal})
	}
	for _, e := range podEdits() {
		p := BaseWindows()
		e.f(p)
		mal := e.malformed && e.name != "os=windows"
		if p.Spec.SecurityContext != nil && p.Spec.SecurityContext.SeccompProfile != nil && p.Spec.OS != nil && p.Spec.OS.Name == "windows" {
			mal = true
		}
		out = append(out, Named{Desc: "windows+" + e.name, Pod: p, Malformed: mal})
	}
	// a pod with nothing at all, and one with no containers
	out = append(out, Named{Desc: "empty", Pod: &corev1.Pod{ObjectMeta: metav1.ObjectMeta{Name: "empty"}}})
	return out
}

// pairGroups: keywords that put edits of one control (at pod level, at container level, as annotation)
// into one group; Pairs combines two edits of the same group, which is where one setting can mask another.
var pairGroups = []string{"apparmor", "seccomp", "selinux", "caps", "runAsNonRoot", "runAsUser", "procMount", "priv", "hostPort", "sysctl", "hostProcess", "allowPrivilegeEscalation", "volume", "host"}

type groupedEdit struct {
	name string
	pod  func(*corev1.Pod)
	cont func(*corev1.Container)
	mal  bool
}

var groupedEdits map[string][]groupedEdit

func buildGroups() {
	groupedEdits = map[string][]groupedEdit{}
	for _, g := range pairGroups {
		for _, e := range podEdits() {
			if strings.Contains(strings.ToLower(e.name), strings.ToLower(g)) {
				groupedEdits[g] = append(groupedEdits[g], groupedEdit{name: e.name, pod: e.f, mal: e.malformed})
			}
		}
		for _, e := range containerEdits() {
			if strings.Contains(strings.ToLower(e.name), strings.ToLower(g)) {
				groupedEdits[g] = append(groupedEdits[g], groupedEdit{name: e.name, cont: e.f})
			}
		}
	}
}

// Pairs: two edits of one control applied to the base pod (each container-level edit to a random
// container kind), sometimes on top of an os / hostUsers setting.
func Pairs(r *rand.Rand) Named {
	if groupedEdits == nil {
		buildGroups()
	}
	var g string
	for {
		g = pairGroups[r.Intn(len(pairGroups))]
		if len(groupedEdits[g]) >= 2 {
			break
		}
	}
	p := Base()
	desc := "pair[" + g + "]"
	mal := false
	switch r.Intn(8) {
	case 0:
		p.Spec.HostUsers = bp(false)
		desc += " hostUsers=false"
	case 1:
		p.Spec.OS = &corev1.PodOS{Name: "linux"}
		desc += " os=linux"
	}
	es := groupedEdits[g]
	for k := 0; k < 2; k++ {
		e := es[r.Intn(len(es))]
		if e.pod != nil {
			e.pod(p)
			desc += " +" + e.name
			mal = mal || e.mal
		} else {
			kind := r.Intn(3)
			e.cont(kindContainer(p, kind))
			desc += " +" + kindNames[kind] + "." + e.name
		}
	}
	return Named{Desc: desc, Pod: p, Malformed: mal}
}

func pickS(r *rand.Rand, l []string) string { return l[r.Intn(len(l))] }

func randOptBool(r *rand.Rand, pTrue, pFalse int) *bool {
	x := r.Intn(100)
	if x < pTrue {
		return bp(true)
	}
	if x < pTrue+pFalse {
		return bp(false)
	}
	return nil
}

func randSELinux(r *rand.Rand) *corev1.SELinuxOptions {
	o := &corev1.SELinuxOptions{Type: pickS(r, SELinuxTypes)}
	if r.Intn(100) < 15 {
		o.User = "system_u"
	}
	if r.Intn(100) < 15 {
		o.Role = "r"
	}
	if r.Intn(100) < 30 {
		o.Level = "s0"
	}
	return o
}

func randSC(r *rand.Rand, windows bool) *corev1.SecurityContext {
	x := r.Intn(100)
	if x < 12 {
		return nil
	}
	if x < 18 {
		return &corev1.SecurityContext{}
	}
	sc := &corev1.SecurityContext{}
	sc.Privileged = randOptBool(r, 10, 30)
	sc.AllowPrivilegeEscalation = randOptBool(r, 10, 75)
	sc.RunAsNonRoot = randOptBool(r, 35, 10)
	if r.Intn(100) < 25 {
		sc.RunAsUser = ip([]int64{0, 0, 1000, 65534, 1}[r.Intn(5)])
	}
	if r.Intn(100) < 20 {
		pm := corev1.ProcMountType(pickS(r, ProcMounts))
		sc.ProcMount = &pm
	}
	if !windows && r.Intn(100) < 85 {
		caps := &corev1.Capabilities{}
		if r.Intn(100) < 85 {
			d := DropPool[r.Intn(len(DropPool))]
			if r.Intn(100) < 70 {
				d = []string{"ALL"}
			}
			for _, x := range d {
				caps.Drop = append(caps.Drop, corev1.Capability(x))
			}
		}
		for r.Intn(100) < 30 {
			if r.Intn(100) < 50 {
				caps.Add = append(caps.Add, "NET_BIND_SERVICE")
			} else {
				caps.Add = append(caps.Add, corev1.Capability(pickS(r, CapPool)))
			}
		}
		sc.Capabilities = caps
	}
	if !windows && r.Intn(100) < 35 {
		t := pickS(r, ProfileTypes)
		if r.Intn(100) < 60 {
			t = "RuntimeDefault"
		}
		sc.SeccompProfile = &corev1.SeccompProfile{Type: corev1.SeccompProfileType(t)}
	}
	if r.Intn(100) < 20 {
		sc.AppArmorProfile = &corev1.AppArmorProfile{Type: corev1.AppArmorProfileType(pickS(r, ProfileTypes))}
	}
	if r.Intn(100) < 20 {
		sc.SELinuxOptions = randSELinux(r)
	}
	if r.Intn(100) < 12 {
		sc.WindowsOptions = &corev1.WindowsSecurityContextOptions{HostProcess: randOptBool(r, 30, 30)}
	}
	return sc
}

func randContainer(r *rand.Rand, windows bool) corev1.Container {
	c := corev1.Container{Name: pickS(r, NamePool), Image: pickS(r, []string{"img1", "img2", "img3"})}
	c.SecurityContext = randSC(r, windows)
	for r.Intn(100) < 18 {
		c.Ports = append(c.Ports, corev1.ContainerPort{HostPort: []int32{0, 0, 80, 8080, 9, 443, 80}[r.Intn(7)], ContainerPort: 80})
	}
	return c
}

// Random draws one structured pod. mostlyValid biases toward restricted-compliant settings.
func Random(r *rand.Rand) Named {
	p := &corev1.Pod{ObjectMeta: metav1.ObjectMeta{Name: fmt.Sprintf("p%d", r.Intn(50)), Namespace: "ns", UID: "pod-uid-1", ResourceVersion: "7"}}
	windows := false
	switch x := r.Intn(100); {
	case x < 12:
		p.Spec.OS = &corev1.PodOS{Name: corev1.Windows}
		windows = true
	case x < 30:
		p.Spec.OS = &corev1.PodOS{Name: corev1.OSName(pickS(r, []string{"linux", "linux", "Windows", ""}))}
	}
	p.Spec.HostNetwork = r.Intn(100) < 6
	p.Spec.HostPID = r.Intn(100) < 6
	p.Spec.HostIPC = r.Intn(100) < 6
	p.Spec.HostUsers = randOptBool(r, 10, 25)
	if r.Intn(100) < 25 {
		p.Spec.RuntimeClassName = sp(pickS(r, []string{"", "kata", "gvisor", "exempt-rc", "Exempt-rc", "exempt-rc2"}))
	}
	if r.Intn(100) < 30 {
		p.OwnerReferences = []metav1.OwnerReference{{UID: types.UID(pickS(r, []string{"u1", "u2", "u3"})), Controller: randOptBool(r, 80, 10)}}
	}
	ni, nc, ne := r.Intn(3), r.Intn(3)+r.Intn(2), r.Intn(3)
	if r.Intn(100) < 60 {
		ni, ne = r.Intn(2), r.Intn(2)
	}
	for i := 0; i < ni; i++ {
		p.Spec.InitContainers = append(p.Spec.InitContainers, randContainer(r, windows))
	}
	for i := 0; i < nc; i++ {
		p.Spec.Containers = append(p.Spec.Containers, randContainer(r, windows))
	}
	for i := 0; i < ne; i++ {
		p.Spec.EphemeralContainers = append(p.Spec.EphemeralContainers, corev1.EphemeralContainer{EphemeralContainerCommon: corev1.EphemeralContainerCommon(randContainer(r, windows))})
	}
	if r.Intn(100) < 85 {
		sc := &corev1.PodSecurityContext{}
		sc.RunAsNonRoot = randOptBool(r, 60, 8)
		if r.Intn(100) < 20 {
			sc.RunAsUser = ip([]int64{0, 1000, 0, 1}[r.Intn(4)])
		}
		if !windows && r.Intn(100) < 70 {
			t := pickS(r, ProfileTypes)
			if r.Intn(100) < 70 {
				t = pickS(r, []string{"RuntimeDefault", "Localhost"})
			}
			sc.SeccompProfile = &corev1.SeccompProfile{Type: corev1.SeccompProfileType(t)}
		}
		if r.Intn(100) < 15 {
			sc.AppArmorProfile = &corev1.AppArmorProfile{Type: corev1.AppArmorProfileType(pickS(r, ProfileTypes))}
		}
		if r.Intn(100) < 15 {
			sc.SELinuxOptions = randSELinux(r)
		}
		for r.Intn(100) < 20 {
			sc.Sysctls = append(sc.Sysctls, corev1.Sysctl{Name: pickS(r, SysctlPool), Value: "1"})
		}
		if r.Intn(100) < 8 {
			sc.WindowsOptions = &corev1.WindowsSecurityContextOptions{HostProcess: randOptBool(r, 30, 30)}
		}
		p.Spec.SecurityContext = sc
	}
	for r.Intn(100) < 35 {
		v := corev1.Volume{Name: fmt.Sprintf("v%d", len(p.Spec.Volumes))}
		if r.Intn(100) < 40 {
			v.Name = pickS(r, VolumeNamePool)
		}
		if r.Intn(100) < 95 {
			k := pickS(r, VolumeKinds)
			if r.Intn(100) < 50 {
				k = pickS(r, []string{"emptyDir", "secret", "configMap", "projected", "persistentVolumeClaim"})
			}
			SetVolumeSource(&v, k)
		}
		p.Spec.Volumes = append(p.Spec.Volumes, v)
	}
	for r.Intn(100) < 22 {
		if p.Annotations == nil {
			p.Annotations = map[string]string{}
		}
		cn := pickS(r, append([]string{"nosuch"}, NamePool...))
		switch r.Intn(4) {
		case 0:
			p.Annotations[AppArmorPrefix+cn] = pickS(r, AppArmorAnnValues)
		case 1:
			p.Annotations[SeccompPodKey] = pickS(r, SeccompAnnValues)
		case 2:
			p.Annotations[SeccompContainerPrefix+cn] = pickS(r, SeccompAnnValues)
		default:
			p.Annotations["example.com/"+cn] = "x"
		}
	}
	return Named{Desc: "random", Pod: p}
}

// Junk fills fields the Pod Security Standards do not mention (C02 frame clause).
func Junk(r *rand.Rand, p *corev1.Pod) {
	p.Labels = map[string]string{"app": "x", "pod-security.kubernetes.io/enforce": "privileged"}
	p.Spec.NodeName = "node"
	p.Spec.ServiceAccountName = "sa"
	p.Spec.AutomountServiceAccountToken = bp(true)
	p.Spec.ShareProcessNamespace = bp(true)
	p.Spec.Priority = func() *int32 { x := int32(1000000); return &x }()
	p.Spec.Tolerations = []corev1.Toleration{{Key: "k", Operator: corev1.TolerationOpExists}}
	p.Spec.DNSPolicy = corev1.DNSDefault
	p.Spec.Hostname = "privileged"
	p.Spec.NodeSelector = map[string]string{"kubernetes.io/os": "windows"}
	if p.Spec.SecurityContext != nil {
		sc := p.Spec.SecurityContext
		sc.RunAsGroup = ip(0)
		sc.FSGroup = ip(0)
		sc.SupplementalGroups = []int64{0}
		if sc.SeccompProfile != nil {
			sc.SeccompProfile.LocalhostProfile = sp("p.json")
		}
		if sc.SELinuxOptions != nil {
			sc.SELinuxOptions.Level = "s0:c123"
		}
		if sc.WindowsOptions != nil {
			sc.WindowsOptions.RunAsUserName = sp("ContainerAdministrator")
		}
		for i := range sc.Sysctls {
			sc.Sysctls[i].Value = "999"
		}
	}
	junkC := func(c *corev1.Container) {
		c.Command = []string{"/bin/sh", "-c", "privileged"}
		c.Env = []corev1.EnvVar{{Name: "hostPath", Value: "true"}}
		c.VolumeMounts = []corev1.VolumeMount{{Name: "hostPath", MountPath: "/host"}}
		c.Resources.Limits = corev1.ResourceList{corev1.ResourceCPU: resource.MustParse("1")}
		c.TTY = true
		c.Stdin = true
		for i := range c.Ports {
			c.Ports[i].ContainerPort = 22
			c.Ports[i].HostIP = "0.0.0.0"
		}
		if sc := c.SecurityContext; sc != nil {
			sc.ReadOnlyRootFilesystem = bp(false)
			sc.RunAsGroup = ip(0)
			if sc.SeccompProfile != nil {
				sc.SeccompProfile.LocalhostProfile = sp("x")
			}
			if sc.AppArmorProfile != nil {
				sc.AppArmorProfile.LocalhostProfile = sp("x")
			}
		}
	}
	for i := range p.Spec.InitContainers {
		junkC(&p.Spec.InitContainers[i])
	}
	for i := range p.Spec.Containers {
		junkC(&p.Spec.Containers[i])
	}
	for i := range p.Spec.EphemeralContainers {
		junkC((*corev1.Container)(&p.Spec.EphemeralContainers[i].EphemeralContainerCommon))
		p.Spec.EphemeralContainers[i].TargetContainerName = "c"
	}
}
