//go:build verif

// Package apistub is a minimal in-process API server: GET of one namespace and LIST of the pods of a
// namespace (with limit/continue chunking), over a mutable cluster state, with scripted failures.
package apistub

import (
	"encoding/json"
	"fmt"
	"net/http"
	"net/http/httptest"
	"sort"
	"strconv"
	"strings"
	"sync"

	corev1 "k8s.io/api/core/v1"
	metav1 "k8s.io/apimachinery/pkg/apis/meta/v1"
	"k8s.io/client-go/kubernetes"
	restclient "k8s.io/client-go/rest"
)

type Stub struct {
	mu         sync.Mutex
	Namespaces map[string]map[string]string // name -> labels
	Pods       map[string][]*corev1.Pod     // namespace -> pods, in the server's list order
	// scripted failures: the n-th (1-based) GET / LIST request since the last Arm call fails
	getFailAt, listFailAt     map[int]string
	gets, lists               int
	getFailures, listFailures int
	srv                       *httptest.Server
}

func New() *Stub {
	s := &Stub{Namespaces: map[string]map[string]string{}, Pods: map[string][]*corev1.Pod{}}
	s.srv = httptest.NewServer(http.HandlerFunc(s.handle))
	return s
}

func (s *Stub) Close() { s.srv.Close() }

func (s *Stub) Client() kubernetes.Interface {
	c, err := kubernetes.NewForConfig(&restclient.Config{Host: s.srv.URL, QPS: -1})
	if err != nil {
		panic(err)
	}
	return c
}

// Arm resets the request counters and installs the failure script for the next request(s).
func (s *Stub) Arm(getFailAt, listFailAt map[int]string) {
	s.mu.Lock()
	s.getFailAt, s.listFailAt, s.gets, s.lists, s.getFailures, s.listFailures = getFailAt, listFailAt, 0, 0, 0, 0
	s.mu.Unlock()
}

func (s *Stub) Set(f func(s *Stub)) {
	s.mu.Lock()
	f(s)
	s.mu.Unlock()
}

// Failures returns the number of GET and LIST requests answered with a scripted failure since the last Arm.
func (s *Stub) Failures() (int, int) {
	s.mu.Lock()
	defer s.mu.Unlock()
	return s.getFailures, s.listFailures
}

// Counts returns the number of GET and LIST requests since the last Arm.
func (s *Stub) Counts() (int, int) {
	s.mu.Lock()
	defer s.mu.Unlock()
	return s.gets, s.lists
}

func writeStatus(w http.ResponseWriter, code int, reason metav1.StatusReason, msg string) {
	w.Header().Set("Content-Type", "application/json")
	w.WriteHeader(code)
	json.NewEncoder(w).Encode(metav1.Status{TypeMeta: metav1.TypeMeta{Kind: "Status", APIVersion: "v1"}, Status: metav1.StatusFailure, Code: int32(code), Reason: reason, Message: msg})
}

func (s *Stub) handle(w http.ResponseWriter, r *http.Request) {
	s.mu.Lock()
	defer s.mu.Unlock()
	parts := strings.Split(strings.Trim(r.URL.Path, "/"), "/")
	// /api/v1/namespaces/{name}            GET
	// /api/v1/namespaces/{name}/pods       LIST
	if r.Method != http.MethodGet || len(parts) < 4 || parts[0] != "api" || parts[1] != "v1" || parts[2] != "namespaces" {
		writeStatus(w, 404, metav1.StatusReasonNotFound, "the server could not find the requested resource")
		return
	}
	name := parts[3]
	if len(parts) == 4 {
		s.gets++
		if msg, bad := s.getFailAt[s.gets]; bad {
			s.getFailures++
			writeStatus(w, 500, metav1.StatusReasonInternalError, msg)
			return
		}
		ls, ok := s.Namespaces[name]
		if !ok {
			writeStatus(w, 404, metav1.StatusReasonNotFound, fmt.Sprintf("namespaces %q not found", name))
			return
		}
		w.Header().Set("Content-Type", "application/json")
		json.NewEncoder(w).Encode(corev1.Namespace{TypeMeta: metav1.TypeMeta{Kind: "Namespace", APIVersion: "v1"}, ObjectMeta: metav1.ObjectMeta{Name: name, Labels: ls, UID: "ns-uid", ResourceVersion: labelsRV(ls)}})
		return
	}
	if len(parts) == 5 && parts[4] == "pods" {
		s.lists++
		if msg, bad := s.listFailAt[s.lists]; bad {
			s.listFailures++
			code, reason := 500, metav1.StatusReasonInternalError
			if r.URL.Query().Get("continue") != "" {
				code, reason = 410, metav1.StatusReasonExpired
			}
			writeStatus(w, code, reason, msg)
			return
		}
		all := s.Pods[name]
		start := 0
		if c := r.URL.Query().Get("continue"); c != "" {
			start, _ = strconv.Atoi(c)
		}
		end := len(all)
		if l, err := strconv.Atoi(r.URL.Query().Get("limit")); err == nil && l > 0 && start+l < end {
			end = start + l
		}
		list := corev1.PodList{TypeMeta: metav1.TypeMeta{Kind: "PodList", APIVersion: "v1"}, ListMeta: metav1.ListMeta{ResourceVersion: "1"}}
		if end < len(all) {
			list.Continue = strconv.Itoa(end)
			rem := int64(len(all) - end)
			list.RemainingItemCount = &rem
		}
		for _, p := range all[start:end] {
			list.Items = append(list.Items, *p)
		}
		w.Header().Set("Content-Type", "application/json")
		json.NewEncoder(w).Encode(list)
		return
	}
	writeStatus(w, 404, metav1.StatusReasonNotFound, "the server could not find the requested resource")
}

// URL is the base URL of the stub.
func (s *Stub) URL() string { return s.srv.URL }

// labelsRV: a resourceVersion that changes exactly when the labels change.
func labelsRV(ls map[string]string) string {
	keys := make([]string, 0, len(ls))
	for k := range ls {
		keys = append(keys, k)
	}
	sort.Strings(keys)
	h := uint32(2166136261)
	for _, k := range keys {
		for _, c := range []byte(k + "=" + ls[k] + ";") {
			h = (h ^ uint32(c)) * 16777619
		}
	}
	return fmt.Sprint(1000 + h%100000)
}
