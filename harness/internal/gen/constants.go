//go:build verif

package gen

import (
	"fmt"
	"os"
	"path/filepath"
	"sort"
	"strings"

	"k8s.io/pod-security-admission/admission"
	"k8s.io/pod-security-admission/admission/api/scheme"
	"k8s.io/pod-security-admission/api"
	"k8s.io/pod-security-admission/cmd/webhook/server"
	"psaverif/internal/cq"
)

func strList(l []string) string {
	var it []string
	for _, s := range l {
		it = append(it, cq.Lit(s))
	}
	return cq.List(it)
}

// writeConstants renders Gen/Constants.v: package-level tables, defaults and key
// names of the source that the model mirrors as literals.
func writeConstants(dir string) error {
	ign, res, maxPods, timeout := admission.VerifConstants()
	sort.Strings(ign)
	sort.Strings(res)
	var served []string
	for _, gv := range scheme.Scheme.PrioritizedVersionsForGroup("pod-security.admission.config.k8s.io") {
		served = append(served, gv.Version)
	}
	var b strings.Builder
	b.WriteString(header)
	b.WriteString("From Coq Require Import ZArith.\n\n")
	fmt.Fprintf(&b, "Definition gen_ignored_pod_subresources : list string :=\n  %s.\n\n", strList(ign))
	fmt.Fprintf(&b, "(** group/resource of every entry of defaultPodSpecResources *)\nDefinition gen_pod_spec_resources : list string :=\n  %s.\n\n", strList(res))
	fmt.Fprintf(&b, "Definition gen_default_max_pods : N := %d%%N.\nDefinition gen_default_timeout_ns : Z := %d%%Z.\n\n", maxPods, int64(timeout))
	fmt.Fprintf(&b, "Definition gen_max_request_size : N := %d%%N.\n\n", int64(server.VerifMaxRequestSize))
	fmt.Fprintf(&b, "Definition gen_label_keys : list string :=\n  %s.\n\n", strList([]string{api.EnforceLevelLabel, api.EnforceVersionLabel, api.AuditLevelLabel, api.AuditVersionLabel, api.WarnLevelLabel, api.WarnVersionLabel}))
	fmt.Fprintf(&b, "Definition gen_annotation_keys : list string :=\n  %s.\n\n", strList([]string{api.ExemptionReasonAnnotationKey, api.AuditViolationsAnnotationKey, api.EnforcedPolicyAnnotationKey}))
	fmt.Fprintf(&b, "(** versions of the configuration group registered in the scheme, in priority order *)\nDefinition gen_served_config_versions : list string :=\n  %s.\n", strList(served))
	return os.WriteFile(filepath.Join(dir, "Constants.v"), []byte(b.String()), 0o644)
}
