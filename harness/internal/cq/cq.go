// Package cq renders Go values as Gallina terms and writes sharded case files
// that one coqc call evaluates with vm_compute.
package cq

import (
	"crypto/sha256"
	"encoding/hex"
	"encoding/json"
	"fmt"
	"os"
	"path/filepath"
	"sort"
	"strings"
)

// Interner gives every distinct string literal a Coq Definition name.
type Interner struct {
	names map[string]string
	idx   map[string]int
	defs  []string
	cur   map[int]bool
}

func NewInterner() *Interner {
	return &Interner{names: map[string]string{}, idx: map[string]int{}, cur: map[int]bool{}}
}

// TakeUses returns the indices of the interned strings referenced since the
// last call (the strings one case needs) and resets the tracker.
func (in *Interner) TakeUses() []int {
	out := make([]int, 0, len(in.cur))
	for i := range in.cur {
		out = append(out, i)
	}
	sort.Ints(out)
	in.cur = map[int]bool{}
	return out
}

func printable(s string) bool {
	for i := 0; i < len(s); i++ {
		if s[i] < 32 || s[i] > 126 {
			return false
		}
	}
	return true
}

// Lit renders a Coq string literal (or an explicit byte list for non printable input).
func Lit(s string) string {
	if printable(s) {
		return `"` + strings.ReplaceAll(s, `"`, `""`) + `"`
	}
	var b strings.Builder
	b.WriteString("(s_of [")
	for i := 0; i < len(s); i++ {
		if i > 0 {
			b.WriteString("; ")
		}
		fmt.Fprintf(&b, "%d", s[i])
	}
	b.WriteString("]%N)")
	return b.String()
}

// S returns the name of the interned string.
func (in *Interner) S(s string) string {
	if n, ok := in.names[s]; ok {
		in.cur[in.idx[s]] = true
		return n
	}
	n := fmt.Sprintf("s%d", len(in.names))
	in.idx[s] = len(in.names)
	in.cur[in.idx[s]] = true
	in.names[s] = n
	in.defs = append(in.defs, fmt.Sprintf("Definition %s : string := %s.", n, Lit(s)))
	return n
}

func (in *Interner) Defs() string { return strings.Join(in.defs, "\n") }

func Bool(b bool) string {
	if b {
		return "true"
	}
	return "false"
}

func N(n uint64) string { return fmt.Sprintf("%d%%N", n) }
func Z(n int64) string {
	if n < 0 {
		return fmt.Sprintf("(%d)%%Z", n)
	}
	return fmt.Sprintf("%d%%Z", n)
}
func Nat(n int) string { return fmt.Sprintf("%d%%nat", n) }

func List(items []string) string {
	if len(items) == 0 {
		return "[]"
	}
	return "[" + strings.Join(items, "; ") + "]"
}

func Opt(present bool, v string) string {
	if !present {
		return "None"
	}
	return "(Some " + v + ")"
}

func App(f string, args ...string) string {
	return "(" + f + " " + strings.Join(args, " ") + ")"
}

func Pair(a, b string) string { return "(" + a + ", " + b + ")" }

func (in *Interner) StrList(l []string) string {
	items := make([]string, len(l))
	for i, s := range l {
		items[i] = in.S(s)
	}
	return List(items)
}

// StrMap renders a Go map as an association list sorted by key (a canonical
// order; the model must not depend on it except where stated).
func (in *Interner) StrMap(m map[string]string) string {
	keys := make([]string, 0, len(m))
	for k := range m {
		keys = append(keys, k)
	}
	sort.Strings(keys)
	items := make([]string, len(keys))
	for i, k := range keys {
		items[i] = Pair(in.S(k), in.S(m[k]))
	}
	return List(items)
}

// Case is one correspondence case: the Gallina term plus bookkeeping.
type Case struct {
	Term       string      // Gallina term of the property's case type
	Key        string      // canonical text of the *input* (for distinctness)
	Nontrivial bool        // by the stream's stated rule
	Tags       []string    // distribution buckets this case falls in
	Sample     interface{} // JSON-able description (for evidence / replay)
	Uses       []int       // interned strings the term refers to (Interner.TakeUses)
}

// Meta is what a stream reports next to the case files.
type Meta struct {
	Stream        string                 `json:"stream"`
	Seed          int64                  `json:"seed"`
	Cases         int                    `json:"cases"`
	Distinct      int                    `json:"distinct"`
	DistinctNT    int                    `json:"distinct_nontrivial"`
	Rule          string                 `json:"rule"`
	Distribution  map[string]int         `json:"distribution"`
	Samples       []interface{}          `json:"samples"`
	Shards        []string               `json:"shards"`
	ShardSizes    []int                  `json:"shard_sizes"`
	GoOracleFails []GoFail               `json:"go_oracle_fails"`
	Extra         map[string]interface{} `json:"extra,omitempty"`
}

// GoFail is a property failure detected directly on the Go side (where the
// observation cannot be serialised for Coq: mutation of inputs, data races,
// pointer identity, deadlines).
type GoFail struct {
	What   string      `json:"what"`
	Replay interface{} `json:"replay"`
}

type Set struct {
	Stream  string
	Seed    int64
	Imports string // e.g. "Corr.C05"
	CaseTy  string // e.g. "c05_case"
	RunFn   string // e.g. "run_c05" : list CaseTy -> list N * list N
	Rule    string
	Prelude func(in *Interner) string // extra definitions placed after the interned strings (may intern)
	Cases   []Case
	GoFails []GoFail
	Extra   map[string]interface{}
}

func hashKey(s string) string {
	h := sha256.Sum256([]byte(s))
	return hex.EncodeToString(h[:8])
}

// Write shards the cases over k files under dir and writes meta.json and
// cases.json (index -> sample, used to build replays).
func (s *Set) Write(dir string, k int, in *Interner) error {
	if err := os.MkdirAll(dir, 0o755); err != nil {
		return err
	}
	if k < 1 {
		k = 1
	}
	n := len(s.Cases)
	if n < k {
		k = n
	}
	if k < 1 {
		k = 1
	}
	meta := Meta{Stream: s.Stream, Seed: s.Seed, Cases: n, Rule: s.Rule, Distribution: map[string]int{}, GoOracleFails: s.GoFails, Extra: s.Extra}
	seen := map[string]bool{}
	seenNT := map[string]bool{}
	for _, c := range s.Cases {
		h := hashKey(c.Key)
		seen[h] = true
		if c.Nontrivial {
			seenNT[h] = true
		}
		for _, t := range c.Tags {
			meta.Distribution[t]++
		}
	}
	meta.Distinct = len(seen)
	meta.DistinctNT = len(seenNT)
	step := n / 5
	if step == 0 {
		step = 1
	}
	for i := 0; i < n && len(meta.Samples) < 6; i += step {
		meta.Samples = append(meta.Samples, s.Cases[i].Sample)
	}
	// shard: case i goes to shard i % k, index inside file is i / k; a global
	// index is recovered as local*k + shard.
	for sh := 0; sh < k; sh++ {
		var b strings.Builder
		b.WriteString("From Coq Require Import List Bool NArith ZArith String.\n")
		b.WriteString("From PSA Require Import Base.Str " + s.Imports + ".\n")
		b.WriteString("Import ListNotations.\nLocal Open Scope string_scope.\nLocal Open Scope nat_scope.\n")
		used := map[int]bool{}
		for i := sh; i < n; i += k {
			for _, u := range s.Cases[i].Uses {
				used[u] = true
			}
		}
		prelude := ""
		if s.Prelude != nil {
			in.TakeUses()
			prelude = s.Prelude(in)
			for _, u := range in.TakeUses() {
				used[u] = true
			}
		}
		for di, d := range in.defs {
			if used[di] {
				b.WriteString(d)
				b.WriteString("\n")
			}
		}
		b.WriteString(prelude)
		var names []string
		cnt := 0
		for i := sh; i < n; i += k {
			nm := fmt.Sprintf("c%d", i)
			fmt.Fprintf(&b, "Definition %s : %s := %s.\n", nm, s.CaseTy, s.Cases[i].Term)
			names = append(names, nm)
			cnt++
		}
		fmt.Fprintf(&b, "Definition cases : list %s := %s.\n", s.CaseTy, List(names))
		fmt.Fprintf(&b, "Definition R := Eval vm_compute in (%s cases).\n", s.RunFn)
		b.WriteString("Definition RF := Eval vm_compute in (fst R).\nPrint RF.\n")
		b.WriteString("Definition RM := Eval vm_compute in (snd R).\nPrint RM.\n")
		name := fmt.Sprintf("cases_%s_%d.v", s.Stream, sh)
		if err := os.WriteFile(filepath.Join(dir, name), []byte(b.String()), 0o644); err != nil {
			return err
		}
		meta.Shards = append(meta.Shards, name)
		meta.ShardSizes = append(meta.ShardSizes, cnt)
	}
	samples := make([]interface{}, n)
	for i, c := range s.Cases {
		samples[i] = c.Sample
	}
	js, _ := json.Marshal(samples)
	if err := os.WriteFile(filepath.Join(dir, "cases_"+s.Stream+".json"), js, 0o644); err != nil {
		return err
	}
	mj, _ := json.MarshalIndent(meta, "", " ")
	return os.WriteFile(filepath.Join(dir, "meta_"+s.Stream+".json"), mj, 0o644)
}
