// Package enc holds the canonical encodings (Go value -> Gallina term) shared
// by all streams.
package enc

import (
	"fmt"
	"sort"

	"k8s.io/apimachinery/pkg/util/validation/field"
	"k8s.io/pod-security-admission/api"
	"psaverif/internal/cq"
)

// Level renders an api.Level; ok=false if it is not one of the three names.
func Level(l api.Level) (string, bool) {
	switch l {
	case api.LevelPrivileged:
		return "Privileged", true
	case api.LevelBaseline:
		return "Baseline", true
	case api.LevelRestricted:
		return "Restricted", true
	}
	return "", false
}

func Version(v api.Version) string {
	if v.Latest() {
		return "Latest"
	}
	if v.Major() < 0 || v.Minor() < 0 {
		// not representable in the model's N; callers treat negative as bad observation
		return fmt.Sprintf("(V %d%%N %d%%N)", 0, 0)
	}
	return fmt.Sprintf("(V %d%%N %d%%N)", v.Major(), v.Minor())
}

func VersionOK(v api.Version) bool {
	return v.Latest() || (v.Major() >= 0 && v.Minor() >= 0)
}

func LV(lv api.LevelVersion) (string, bool) {
	l, ok := Level(lv.Level)
	if !ok || !VersionOK(lv.Version) {
		return "", false
	}
	return cq.App("LV", l, Version(lv.Version)), true
}

func Policy(p api.Policy) (string, bool) {
	e, ok1 := LV(p.Enforce)
	a, ok2 := LV(p.Audit)
	w, ok3 := LV(p.Warn)
	if !(ok1 && ok2 && ok3) {
		return "", false
	}
	return cq.App("Policy", e, a, w), true
}

// Labels renders a label map as an association list in sorted key order.
func Labels(in *cq.Interner, m map[string]string) string {
	keys := make([]string, 0, len(m))
	for k := range m {
		keys = append(keys, k)
	}
	sort.Strings(keys)
	items := make([]string, len(keys))
	for i, k := range keys {
		items[i] = cq.Pair(in.S(k), in.S(m[k]))
	}
	return cq.List(items)
}

const labelsPrefix = "metadata.labels["

// FieldErrs projects a field.ErrorList produced by PolicyToEvaluate to
// (label key, bad value) pairs; ok=false if an entry is not an Invalid error
// on metadata.labels[<key>] with a string bad value.
func FieldErrs(in *cq.Interner, errs field.ErrorList) (string, bool) {
	items := make([]string, 0, len(errs))
	for _, e := range errs {
		if e.Type != field.ErrorTypeInvalid {
			return "", false
		}
		f := e.Field
		if len(f) < len(labelsPrefix)+1 || f[:len(labelsPrefix)] != labelsPrefix || f[len(f)-1] != ']' {
			return "", false
		}
		key := f[len(labelsPrefix) : len(f)-1]
		bv, ok := e.BadValue.(string)
		if !ok {
			return "", false
		}
		items = append(items, cq.Pair(in.S(key), in.S(bv)))
	}
	return cq.List(items), true
}
