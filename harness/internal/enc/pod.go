package enc

import (
	"reflect"
	"sort"
	"strings"

	corev1 "k8s.io/api/core/v1"
	metav1 "k8s.io/apimachinery/pkg/apis/meta/v1"
	"k8s.io/apimachinery/pkg/types"
	"psaverif/internal/cq"
)

// The abstract pod (mirror of coq/theories/Model/Pod.v).

type ASELinux struct{ Type, User, Role string }

type ASecCtx struct {
	Privileged, AllowPE, RunAsNonRoot *bool
	RunAsUser                         *int64
	ProcMount                         *string
	Caps                              *[2][]string // add, drop
	Seccomp, AppArmor                 *string
	SELinux                           *ASELinux
	WinSet                            bool  // windowsOptions != nil
	WinHP                             *bool // windowsOptions.hostProcess
}

type AContainer struct {
	Name, Image string
	HostPorts   []int32
	SC          *ASecCtx
}

type APodSC struct {
	RunAsNonRoot      *bool
	RunAsUser         *int64
	Seccomp, AppArmor *string
	SELinux           *ASELinux
	Sysctls           []string
	WinSet            bool
	WinHP             *bool
}

type AVolume struct {
	Name    string
	Sources []string
}

type APod struct {
	Name         string
	Annotations  map[string]string
	OwnerUID     *string
	HostNetwork  bool
	HostPID      bool
	HostIPC      bool
	HostUsers    *bool
	OS           *string
	RuntimeClass *string
	Init         []AContainer
	Containers   []AContainer
	Ephemeral    []AContainer
	Volumes      []AVolume
	SC           *APodSC
}

// volumeSourceNames lists the JSON names of corev1.VolumeSource members in struct order.
var volumeSourceNames []string

func init() {
	t := reflect.TypeOf(corev1.VolumeSource{})
	for i := 0; i < t.NumField(); i++ {
		tag := t.Field(i).Tag.Get("json")
		volumeSourceNames = append(volumeSourceNames, strings.Split(tag, ",")[0])
	}
}

func VolumeSourceNames() []string { return volumeSourceNames }

func alphaSELinux(o *corev1.SELinuxOptions) *ASELinux {
	if o == nil {
		return nil
	}
	return &ASELinux{Type: o.Type, User: o.User, Role: o.Role}
}

func alphaSC(sc *corev1.SecurityContext) *ASecCtx {
	if sc == nil {
		return nil
	}
	a := &ASecCtx{Privileged: sc.Privileged, AllowPE: sc.AllowPrivilegeEscalation, RunAsNonRoot: sc.RunAsNonRoot, RunAsUser: sc.RunAsUser}
	if sc.ProcMount != nil {
		s := string(*sc.ProcMount)
		a.ProcMount = &s
	}
	if sc.Capabilities != nil {
		var c [2][]string
		for _, x := range sc.Capabilities.Add {
			c[0] = append(c[0], string(x))
		}
		for _, x := range sc.Capabilities.Drop {
			c[1] = append(c[1], string(x))
		}
		a.Caps = &c
	}
	if sc.SeccompProfile != nil {
		s := string(sc.SeccompProfile.Type)
		a.Seccomp = &s
	}
	if sc.AppArmorProfile != nil {
		s := string(sc.AppArmorProfile.Type)
		a.AppArmor = &s
	}
	a.SELinux = alphaSELinux(sc.SELinuxOptions)
	if sc.WindowsOptions != nil {
		a.WinSet = true
		a.WinHP = sc.WindowsOptions.HostProcess
	}
	return a
}

func alphaContainer(c *corev1.Container) AContainer {
	a := AContainer{Name: c.Name, Image: c.Image, SC: alphaSC(c.SecurityContext)}
	for _, p := range c.Ports {
		a.HostPorts = append(a.HostPorts, p.HostPort)
	}
	return a
}

// Alpha is the abstraction function *corev1.Pod -> abstract pod.
func Alpha(meta *metav1.ObjectMeta, spec *corev1.PodSpec) *APod {
	p := &APod{Name: meta.Name, Annotations: meta.Annotations, HostNetwork: spec.HostNetwork, HostPID: spec.HostPID, HostIPC: spec.HostIPC,
		HostUsers: spec.HostUsers, RuntimeClass: spec.RuntimeClassName}
	for _, ref := range meta.OwnerReferences {
		if ref.Controller != nil && *ref.Controller {
			u := string(ref.UID)
			p.OwnerUID = &u
			break
		}
	}
	if spec.OS != nil {
		s := string(spec.OS.Name)
		p.OS = &s
	}
	for i := range spec.InitContainers {
		p.Init = append(p.Init, alphaContainer(&spec.InitContainers[i]))
	}
	for i := range spec.Containers {
		p.Containers = append(p.Containers, alphaContainer(&spec.Containers[i]))
	}
	for i := range spec.EphemeralContainers {
		p.Ephemeral = append(p.Ephemeral, alphaContainer((*corev1.Container)(&spec.EphemeralContainers[i].EphemeralContainerCommon)))
	}
	for i := range spec.Volumes {
		v := AVolume{Name: spec.Volumes[i].Name}
		rv := reflect.ValueOf(spec.Volumes[i].VolumeSource)
		for j := 0; j < rv.NumField(); j++ {
			if !rv.Field(j).IsNil() {
				v.Sources = append(v.Sources, volumeSourceNames[j])
			}
		}
		p.Volumes = append(p.Volumes, v)
	}
	if sc := spec.SecurityContext; sc != nil {
		a := &APodSC{RunAsNonRoot: sc.RunAsNonRoot, RunAsUser: sc.RunAsUser, SELinux: alphaSELinux(sc.SELinuxOptions)}
		if sc.SeccompProfile != nil {
			s := string(sc.SeccompProfile.Type)
			a.Seccomp = &s
		}
		if sc.AppArmorProfile != nil {
			s := string(sc.AppArmorProfile.Type)
			a.AppArmor = &s
		}
		for _, s := range sc.Sysctls {
			a.Sysctls = append(a.Sysctls, s.Name)
		}
		if sc.WindowsOptions != nil {
			a.WinSet = true
			a.WinHP = sc.WindowsOptions.HostProcess
		}
		p.SC = a
	}
	return p
}

// ---- gamma: abstract pod -> a minimal concrete pod with nothing else set ----

func gammaSELinux(o *ASELinux) *corev1.SELinuxOptions {
	if o == nil {
		return nil
	}
	return &corev1.SELinuxOptions{Type: o.Type, User: o.User, Role: o.Role}
}

func gammaSC(a *ASecCtx) *corev1.SecurityContext {
	if a == nil {
		return nil
	}
	sc := &corev1.SecurityContext{Privileged: a.Privileged, AllowPrivilegeEscalation: a.AllowPE, RunAsNonRoot: a.RunAsNonRoot, RunAsUser: a.RunAsUser}
	if a.ProcMount != nil {
		pm := corev1.ProcMountType(*a.ProcMount)
		sc.ProcMount = &pm
	}
	if a.Caps != nil {
		sc.Capabilities = &corev1.Capabilities{}
		for _, x := range a.Caps[0] {
			sc.Capabilities.Add = append(sc.Capabilities.Add, corev1.Capability(x))
		}
		for _, x := range a.Caps[1] {
			sc.Capabilities.Drop = append(sc.Capabilities.Drop, corev1.Capability(x))
		}
	}
	if a.Seccomp != nil {
		sc.SeccompProfile = &corev1.SeccompProfile{Type: corev1.SeccompProfileType(*a.Seccomp)}
	}
	if a.AppArmor != nil {
		sc.AppArmorProfile = &corev1.AppArmorProfile{Type: corev1.AppArmorProfileType(*a.AppArmor)}
	}
	sc.SELinuxOptions = gammaSELinux(a.SELinux)
	if a.WinSet {
		sc.WindowsOptions = &corev1.WindowsSecurityContextOptions{HostProcess: a.WinHP}
	}
	return sc
}

func gammaContainer(a AContainer) corev1.Container {
	c := corev1.Container{Name: a.Name, Image: a.Image, SecurityContext: gammaSC(a.SC)}
	for _, hp := range a.HostPorts {
		c.Ports = append(c.Ports, corev1.ContainerPort{HostPort: hp})
	}
	return c
}

// Gamma rebuilds a concrete pod from the abstract one.
func Gamma(a *APod) *corev1.Pod {
	p := &corev1.Pod{}
	p.Name = a.Name
	p.Annotations = a.Annotations
	if a.OwnerUID != nil {
		t := true
		p.OwnerReferences = []metav1.OwnerReference{{UID: types.UID(*a.OwnerUID), Controller: &t}}
	}
	p.Spec.HostNetwork, p.Spec.HostPID, p.Spec.HostIPC = a.HostNetwork, a.HostPID, a.HostIPC
	p.Spec.HostUsers = a.HostUsers
	p.Spec.RuntimeClassName = a.RuntimeClass
	if a.OS != nil {
		p.Spec.OS = &corev1.PodOS{Name: corev1.OSName(*a.OS)}
	}
	for _, c := range a.Init {
		p.Spec.InitContainers = append(p.Spec.InitContainers, gammaContainer(c))
	}
	for _, c := range a.Containers {
		p.Spec.Containers = append(p.Spec.Containers, gammaContainer(c))
	}
	for _, c := range a.Ephemeral {
		p.Spec.EphemeralContainers = append(p.Spec.EphemeralContainers, corev1.EphemeralContainer{EphemeralContainerCommon: corev1.EphemeralContainerCommon(gammaContainer(c))})
	}
	for _, v := range a.Volumes {
		vol := corev1.Volume{Name: v.Name}
		rv := reflect.ValueOf(&vol.VolumeSource).Elem()
		for _, s := range v.Sources {
			for j, n := range volumeSourceNames {
				if n == s {
					f := rv.Field(j)
					f.Set(reflect.New(f.Type().Elem()))
				}
			}
		}
		p.Spec.Volumes = append(p.Spec.Volumes, vol)
	}
	if a.SC != nil {
		sc := &corev1.PodSecurityContext{RunAsNonRoot: a.SC.RunAsNonRoot, RunAsUser: a.SC.RunAsUser, SELinuxOptions: gammaSELinux(a.SC.SELinux)}
		if a.SC.Seccomp != nil {
			sc.SeccompProfile = &corev1.SeccompProfile{Type: corev1.SeccompProfileType(*a.SC.Seccomp)}
		}
		if a.SC.AppArmor != nil {
			sc.AppArmorProfile = &corev1.AppArmorProfile{Type: corev1.AppArmorProfileType(*a.SC.AppArmor)}
		}
		for _, s := range a.SC.Sysctls {
			sc.Sysctls = append(sc.Sysctls, corev1.Sysctl{Name: s})
		}
		if a.SC.WinSet {
			sc.WindowsOptions = &corev1.WindowsSecurityContextOptions{HostProcess: a.SC.WinHP}
		}
		p.Spec.SecurityContext = sc
	}
	return p
}

// ---- rendering as Gallina terms ----

func optBool(b *bool) string {
	if b == nil {
		return "None"
	}
	return cq.App("Some", cq.Bool(*b))
}
func optInt64(i *int64) string {
	if i == nil {
		return "None"
	}
	return cq.App("Some", cq.Z(*i))
}
func optStr(in *cq.Interner, s *string) string {
	if s == nil {
		return "None"
	}
	return cq.App("Some", in.S(*s))
}
func optSELinux(in *cq.Interner, o *ASELinux) string {
	if o == nil {
		return "None"
	}
	return cq.App("Some", cq.App("SELinux", in.S(o.Type), in.S(o.User), in.S(o.Role)))
}
func winHP(set bool, hp *bool) string {
	if !set {
		return "None"
	}
	return cq.App("Some", optBool(hp))
}

func scTerm(in *cq.Interner, a *ASecCtx) string {
	if a == nil {
		return "None"
	}
	caps := "None"
	if a.Caps != nil {
		caps = cq.App("Some", cq.Pair(in.StrList(a.Caps[0]), in.StrList(a.Caps[1])))
	}
	return cq.App("Some", cq.App("SecCtx", optBool(a.Privileged), optBool(a.AllowPE), optBool(a.RunAsNonRoot), optInt64(a.RunAsUser),
		optStr(in, a.ProcMount), caps, optStr(in, a.Seccomp), optStr(in, a.AppArmor), optSELinux(in, a.SELinux), winHP(a.WinSet, a.WinHP)))
}

func containersTerm(in *cq.Interner, cs []AContainer) string {
	items := make([]string, len(cs))
	for i, c := range cs {
		ports := make([]string, len(c.HostPorts))
		for j, p := range c.HostPorts {
			ports[j] = cq.Z(int64(p))
		}
		items[i] = cq.App("Container", in.S(c.Name), in.S(c.Image), cq.List(ports), scTerm(in, c.SC))
	}
	return cq.List(items)
}

// PodTerm renders the abstract pod; annotations in sorted key order.
func PodTerm(in *cq.Interner, a *APod) string {
	return PodTermAnnOrder(in, a, nil)
}

// PodTermAnnOrder renders with an explicit annotation key order (for the
// map-order experiments of C14); nil means sorted.
func PodTermAnnOrder(in *cq.Interner, a *APod, order []string) string {
	keys := order
	if keys == nil {
		for k := range a.Annotations {
			keys = append(keys, k)
		}
		sort.Strings(keys)
	}
	anns := make([]string, len(keys))
	for i, k := range keys {
		anns[i] = cq.Pair(in.S(k), in.S(a.Annotations[k]))
	}
	vols := make([]string, len(a.Volumes))
	for i, v := range a.Volumes {
		vols[i] = cq.App("Volume", in.S(v.Name), in.StrList(v.Sources))
	}
	sc := "None"
	if a.SC != nil {
		sc = cq.App("Some", cq.App("PodSC", optBool(a.SC.RunAsNonRoot), optInt64(a.SC.RunAsUser), optStr(in, a.SC.Seccomp), optStr(in, a.SC.AppArmor),
			optSELinux(in, a.SC.SELinux), in.StrList(a.SC.Sysctls), winHP(a.SC.WinSet, a.SC.WinHP)))
	}
	return cq.App("Pod", in.S(a.Name), cq.List(anns), optStr(in, a.OwnerUID), cq.Bool(a.HostNetwork), cq.Bool(a.HostPID), cq.Bool(a.HostIPC),
		optBool(a.HostUsers), optStr(in, a.OS), optStr(in, a.RuntimeClass),
		containersTerm(in, a.Init), containersTerm(in, a.Containers), containersTerm(in, a.Ephemeral), cq.List(vols), sc)
}
