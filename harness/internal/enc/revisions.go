package enc

import "fmt"

// RevisionLabel names a registered check revision by (check id, MinimumVersion).
// The label is what the Coq model's dictionary is keyed by.  It coincides with the
// name of the Go function bound to the revision at the pinned commit, but is
// derived from the registration data, so renaming a Go function does not change
// it, while binding a revision to a function that behaves differently is seen by
// the correspondence.  Revisions outside this table (a new revision, a moved
// MinimumVersion) fall back to the Go function name and are reported as unbound
// by the Coq side unless the model knows that name.
var revisionLabels = map[string]string{
	"appArmorProfile@1.0":            "appArmorProfile_1_0",
	"capabilities_baseline@1.0":      "capabilitiesBaseline_1_0",
	"hostNamespaces@1.0":             "hostNamespaces_1_0",
	"hostPathVolumes@1.0":            "hostPathVolumes_1_0",
	"hostPorts@1.0":                  "hostPorts_1_0",
	"privileged@1.0":                 "privileged_1_0",
	"procMount@1.0":                  "procMount_1_0",
	"seLinuxOptions@1.0":             "seLinuxOptions1_0",
	"seLinuxOptions@1.31":            "seLinuxOptions1_31",
	"seccompProfile_baseline@1.0":    "seccompProfileBaseline_1_0",
	"seccompProfile_baseline@1.19":   "seccompProfileBaseline_1_19",
	"sysctls@1.0":                    "sysctlsV1Dot0",
	"sysctls@1.27":                   "sysctlsV1Dot27",
	"sysctls@1.29":                   "sysctlsV1Dot29",
	"sysctls@1.32":                   "sysctlsV1Dot32",
	"windowsHostProcess@1.0":         "windowsHostProcess_1_0",
	"allowPrivilegeEscalation@1.8":   "allowPrivilegeEscalation_1_8",
	"allowPrivilegeEscalation@1.25":  "allowPrivilegeEscalation_1_25",
	"capabilities_restricted@1.22":   "capabilitiesRestricted_1_22",
	"capabilities_restricted@1.25":   "capabilitiesRestricted_1_25",
	"restrictedVolumes@1.0":          "restrictedVolumes_1_0",
	"runAsNonRoot@1.0":               "runAsNonRoot_1_0",
	"runAsUser@1.23":                 "runAsUser_1_23",
	"seccompProfile_restricted@1.19": "seccompProfileRestricted_1_19",
	"seccompProfile_restricted@1.25": "seccompProfileRestricted_1_25",
}

func RevisionLabel(id string, major, minor int, goFuncName string) string {
	if l, ok := revisionLabels[fmt.Sprintf("%s@%d.%d", id, major, minor)]; ok {
		return l
	}
	return goFuncName
}
