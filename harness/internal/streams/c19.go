package streams

import (
	"fmt"
	"math/rand"

	corev1 "k8s.io/api/core/v1"
	"k8s.io/pod-security-admission/policy"
	"psaverif/internal/cq"
	"psaverif/internal/enc"
	"psaverif/internal/podgen"
)

// C19: per-revision results for hostUsers in {nil,true,false} x switch off/on.
func C19(seed int64, n int) (*cq.Set, *cq.Interner) {
	r := rand.New(rand.NewSource(seed))
	in := cq.NewInterner()
	revs := Revisions()
	set := &cq.Set{Stream: "c19", Seed: seed, Imports: "Model.Api Model.Pod Model.Checks Corr.C19", CaseTy: "c19_case", RunFn: "run_c19 ids fns",
		Rule: "enumeration pods + n random pods; each evaluated by all registered revisions for hostUsers in {nil,true,false} x relaxation switch off/on (6 result vectors per pod); distinct by abstract pod; non-trivial = some revision denies with the switch off"}
	set.Prelude = func(in *cq.Interner) string {
		var fns, ids []string
		for _, rv := range revs {
			fns = append(fns, in.S(rv.Fn))
			ids = append(ids, in.S(rv.ID))
		}
		return "Definition fns : list string := " + cq.List(fns) + ".\nDefinition ids : list string := " + cq.List(ids) + ".\n"
	}
	defer policy.RelaxPolicyForUserNamespacePods(false)
	add := func(nm podgen.Named) {
		a := enc.Alpha(&nm.Pod.ObjectMeta, &nm.Pod.Spec)
		var obs []string
		denied := 0
		waivedDenied := 0
		for _, h := range []*bool{nil, boolp(true), boolp(false)} {
			pod := nm.Pod.DeepCopy()
			pod.Spec.HostUsers = h
			for _, relax := range []bool{false, true} {
				policy.RelaxPolicyForUserNamespacePods(relax)
				var bad []string
				for i, rv := range revs {
					res := safeCheck(rv.Check, pod)
					if t := crTerm(in, res); t != "cr_ok" {
						bad = append(bad, cq.App("bd19", fmt.Sprint(i), t))
						if !relax && h == nil {
							denied++
							if rv.ID == "runAsNonRoot" || rv.ID == "runAsUser" || rv.ID == "procMount" {
								waivedDenied++
							}
						}
					}
				}
				hs := "None"
				if h != nil {
					hs = cq.App("Some", cq.Bool(*h))
				}
				obs = append(obs, cq.App("ob19", fmt.Sprint(len(revs)), hs, cq.Bool(relax), cq.List(bad)))
			}
		}
		policy.RelaxPolicyForUserNamespacePods(false)
		term := cq.App("C19Case", enc.PodTerm(in, a), cq.List(obs))
		tags := []string{fmt.Sprintf("denied_by_waivable:%v", waivedDenied > 0), fmt.Sprintf("denied_by_other:%v", denied-waivedDenied > 0)}
		set.Cases = append(set.Cases, cq.Case{Term: term, Key: PodKey(a), Nontrivial: denied > 0, Tags: tags,
			Sample: map[string]interface{}{"desc": nm.Desc, "pod": nm.Pod}, Uses: in.TakeUses()})
	}
	if ReplayPod != nil {
		add(podgen.Named{Desc: "replay", Pod: ReplayPod})
		return set, in
	}
	for _, nm := range podgen.Enumerate() {
		add(nm)
	}
	for i := 0; i < n; i++ {
		add(podgen.Random(r))
	}
	return set, in
}

func boolp(b bool) *bool { return &b }

var _ = corev1.Pod{}
