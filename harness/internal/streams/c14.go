//go:build verif

package streams

import (
	"fmt"
	"math/rand"
	"reflect"
	"sort"
	"sync"

	corev1 "k8s.io/api/core/v1"
	"k8s.io/pod-security-admission/api"
	"k8s.io/pod-security-admission/policy"
	"psaverif/internal/cq"
	"psaverif/internal/enc"
	"psaverif/internal/podgen"
)

// mapHeavy biases a pod toward two or more map- or set-derived items per control.
func mapHeavy(r *rand.Rand) *corev1.Pod {
	p := violator(r)
	if p.Annotations == nil {
		p.Annotations = map[string]string{}
	}
	for i := 0; i < 2+r.Intn(4); i++ {
		p.Annotations[podgen.AppArmorPrefix+fmt.Sprintf("c%d", r.Intn(6))] = pick(r, []string{"unconfined", "bad", "localhost/x", "zz", "a\"b"})
	}
	for i := 0; i < 1+r.Intn(3); i++ {
		p.Annotations[podgen.SeccompContainerPrefix+pick(r, []string{"app", "a", "ab", "init", "nosuch"})] = pick(r, []string{"unconfined", "bad", "runtime/default"})
	}
	if r.Intn(2) == 0 {
		p.Annotations[podgen.SeccompPodKey] = "unconfined"
	}
	for i := range p.Spec.Containers {
		c := &p.Spec.Containers[i]
		if c.SecurityContext == nil {
			c.SecurityContext = &corev1.SecurityContext{}
		}
		c.SecurityContext.Capabilities = &corev1.Capabilities{Add: []corev1.Capability{"SYS_ADMIN", "NET_RAW", "BPF", "NET_RAW"}}
		c.Ports = append(c.Ports, corev1.ContainerPort{HostPort: 9090}, corev1.ContainerPort{HostPort: 80})
	}
	return p
}

func sparseVector(in *cq.Interner, revs []Rev, pod *corev1.Pod) ([]string, []policy.CheckResult) {
	var bad []string
	var all []policy.CheckResult
	for i, rv := range revs {
		res := safeCheck(rv.Check, pod)
		all = append(all, res)
		if t := crTerm(in, res); t != "cr_ok" {
			bad = append(bad, cq.App("bd", fmt.Sprint(i), t))
		}
	}
	return bad, all
}

// C14: repeated and concurrent evaluation of the same pod.
func C14(seed int64, n int) (*cq.Set, *cq.Interner) {
	r := rand.New(rand.NewSource(seed))
	in := cq.NewInterner()
	o := NewPodObserver()
	set := &cq.Set{Stream: "c14", Seed: seed, Imports: "Model.Api Model.Pod Model.Checks Corr.PodCases", CaseTy: "c14_case", RunFn: "run_c14",
		Rule: "n pods biased toward several offending annotations, capabilities, ports and profile types; each evaluated 8 times by all registered revisions (fresh map iteration order each time), once more from 16 goroutines sharing the same pod object, with the pod deep-compared before/after; the pod term carries its annotations in a shuffled order; distinct by abstract pod; non-trivial = at least two map/set-derived items in some detail"}
	set.Prelude = func(in *cq.Interner) string {
		var fns, vs []string
		for _, rv := range o.Revs {
			fns = append(fns, in.S(rv.Fn))
		}
		for _, v := range o.Versions {
			vs = append(vs, enc.Version(v))
		}
		return "Definition fns : list string := " + cq.List(fns) + ".\nDefinition vers : list version := " + cq.List(vs) + ".\n"
	}
	for i := 0; i < n; i++ {
		pod := mapHeavy(r)
		before := pod.DeepCopy()
		var reps []string
		var first []policy.CheckResult
		for k := 0; k < 8; k++ {
			bad, all := sparseVector(in, o.Revs, pod)
			reps = append(reps, cq.List(bad))
			if k == 0 {
				first = all
			} else if !reflect.DeepEqual(first, all) {
				set.GoFails = append(set.GoFails, cq.GoFail{What: "repeated evaluation of the same pod returned different results (map iteration order leaks into the output)", Replay: map[string]interface{}{"pod": pod, "first": first, "other": all}})
			}
		}
		// concurrent evaluation of the shared object
		var wg sync.WaitGroup
		var mu sync.Mutex
		diff := false
		for g := 0; g < 16; g++ {
			wg.Add(1)
			go func() {
				defer wg.Done()
				_, all := sparseVector(cq.NewInterner(), o.Revs, pod)
				rs := o.Evaluator.EvaluatePod(api.LevelVersion{Level: api.LevelRestricted, Version: api.LatestVersion()}, &pod.ObjectMeta, &pod.Spec)
				_ = rs
				if !reflect.DeepEqual(first, all) {
					mu.Lock()
					diff = true
					mu.Unlock()
				}
			}()
		}
		wg.Wait()
		if diff {
			set.GoFails = append(set.GoFails, cq.GoFail{What: "concurrent evaluation of a shared pod returned different results", Replay: map[string]interface{}{"pod": pod}})
		}
		if !reflect.DeepEqual(before, pod) {
			set.GoFails = append(set.GoFails, cq.GoFail{What: "evaluating a pod modified its metadata or spec", Replay: map[string]interface{}{"before": before, "after": pod}})
		}
		// purity across inputs: the long-lived evaluator (which has seen every earlier pod, all under the same uid
		// and resourceVersion) must answer like an evaluator constructed just now
		if fresh, err := policy.NewEvaluator(policy.DefaultChecks()); err == nil {
			for _, lv := range []api.LevelVersion{{Level: api.LevelBaseline, Version: api.LatestVersion()}, {Level: api.LevelRestricted, Version: api.LatestVersion()}, {Level: api.LevelBaseline, Version: api.MajorMinorVersion(1, 0)}} {
				a := o.Evaluator.EvaluatePod(lv, &pod.ObjectMeta, &pod.Spec)
				b := fresh.EvaluatePod(lv, &pod.ObjectMeta, &pod.Spec)
				if !reflect.DeepEqual(a, b) {
					set.GoFails = append(set.GoFails, cq.GoFail{What: "the evaluator's answer for a pod depends on the pods it evaluated before (a freshly constructed evaluator answers differently) at " + lv.String(), Replay: map[string]interface{}{"pod": pod, "long_lived": a, "fresh": b}})
					break
				}
			}
		}
		a := enc.Alpha(&pod.ObjectMeta, &pod.Spec)
		keys := make([]string, 0, len(a.Annotations))
		for k := range a.Annotations {
			keys = append(keys, k)
		}
		sort.Strings(keys)
		r.Shuffle(len(keys), func(i, j int) { keys[i], keys[j] = keys[j], keys[i] })
		obs := o.Observe(in, pod, false)
		pc := cq.App("PCm", "fns", "vers", enc.PodTermAnnOrder(in, a, keys), cq.List(obs.BadOff), cq.List(obs.BadOn), cq.List(obs.Evals))
		term := cq.App("C14Case", pc, cq.List(reps))
		set.Cases = append(set.Cases, cq.Case{Term: term, Key: PodKey(a), Nontrivial: len(a.Annotations) >= 2, Tags: []string{fmt.Sprintf("annotations:%d", len(a.Annotations))},
			Sample: map[string]interface{}{"pod": pod}, Uses: in.TakeUses()})
	}
	// many goroutines evaluating DIFFERENT, never-seen pods at once (process-wide caches keyed by
	// pod content would be written concurrently)
	var wg sync.WaitGroup
	var mu sync.Mutex
	bad := 0
	for g := 0; g < 16; g++ {
		wg.Add(1)
		seedg := r.Int63()
		go func(g int) {
			defer wg.Done()
			rr := rand.New(rand.NewSource(seedg))
			for i := 0; i < 150; i++ {
				pod := mapHeavy(rr)
				for ci := range pod.Spec.Containers {
					pod.Spec.Containers[ci].Ports = append(pod.Spec.Containers[ci].Ports, corev1.ContainerPort{HostPort: int32(1000 + g*4000 + i*7 + ci)})
					pod.Spec.Containers[ci].Name = fmt.Sprintf("c-%d-%d-%d", g, i, ci)
				}
				pod.Annotations[podgen.AppArmorPrefix+fmt.Sprintf("x-%d-%d", g, i)] = fmt.Sprintf("profile-%d-%d", g, i)
				_, a1 := sparseVector(cq.NewInterner(), o.Revs, pod)
				_, a2 := sparseVector(cq.NewInterner(), o.Revs, pod)
				if !reflect.DeepEqual(a1, a2) {
					mu.Lock()
					bad++
					mu.Unlock()
				}
			}
		}(g)
	}
	wg.Wait()
	if bad > 0 {
		set.GoFails = append(set.GoFails, cq.GoFail{What: fmt.Sprintf("%d pods evaluated concurrently with other fresh pods gave two different results for the same pod", bad), Replay: map[string]interface{}{"goroutines": 16}})
	}
	return set, in
}
