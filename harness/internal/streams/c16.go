//go:build verif

package streams

import (
	"bytes"
	"context"
	"encoding/json"
	"errors"
	"fmt"
	"io"
	"math/rand"
	"net/http"
	"net/http/httptest"
	"strings"
	"sync"
	"sync/atomic"

	admissionv1 "k8s.io/api/admission/v1"
	authenticationv1 "k8s.io/api/authentication/v1"
	corev1 "k8s.io/api/core/v1"
	metav1 "k8s.io/apimachinery/pkg/apis/meta/v1"
	"k8s.io/apimachinery/pkg/runtime"
	"k8s.io/apimachinery/pkg/types"
	"k8s.io/pod-security-admission/admission"
	"k8s.io/pod-security-admission/api"
	"k8s.io/pod-security-admission/cmd/webhook/server"
	"psaverif/internal/adm"
	"psaverif/internal/cq"
)

// staticNS answers namespace lookups from a fixed map (unknown names: error).
type staticNS struct{ labels map[string]map[string]string }

func (s staticNS) GetNamespace(_ context.Context, name string) (*corev1.Namespace, error) {
	ls, ok := s.labels[name]
	if !ok {
		return nil, fmt.Errorf("namespace %q not found", name)
	}
	return &corev1.Namespace{ObjectMeta: metav1.ObjectMeta{Name: name, Labels: ls}}, nil
}

type noPods struct{}

func (noPods) ListPods(context.Context, string) ([]*corev1.Pod, error) { return nil, nil }

var c16Namespaces = map[string]map[string]string{
	"priv":       {},
	"restricted": {api.EnforceLevelLabel: "restricted", api.WarnLevelLabel: "baseline"},
	"baseline":   {api.EnforceLevelLabel: "baseline", api.AuditLevelLabel: "restricted"},
	"exempt-ns":  {api.EnforceLevelLabel: "restricted"},
	"badlabels":  {api.EnforceLevelLabel: "bogus"},
}

func c16Cfg() adm.CfgSpec {
	lat := api.LevelVersion{Level: api.LevelPrivileged, Version: api.LatestVersion()}
	return adm.CfgSpec{Defaults: api.Policy{Enforce: lat, Audit: lat, Warn: lat}, ExNS: []string{"exempt-ns"}, ExUsers: []string{"exempt-user"}, ExRCs: []string{"exempt-rc"}}
}

type reviewSpec struct {
	UID       string
	Namespace string
	User      string
	Sub       string
	Op        string
	Pod       *corev1.Pod
}

func (rs reviewSpec) reqSpec() adm.ReqSpec {
	return adm.ReqSpec{Group: "", Resource: "pods", Subresource: rs.Sub, Namespace: rs.Namespace, Name: rs.Pod.Name, User: rs.User, Op: rs.Op,
		Object: adm.ObjSpec{Kind: "pod", Pod: rs.Pod}, Old: adm.ObjSpec{Kind: "nil"}}
}

func (rs reviewSpec) worldSpec() adm.WorldSpec {
	ls, ok := c16Namespaces[rs.Namespace]
	return adm.WorldSpec{NSLabels: ls, NSErr: !ok}
}

func (rs reviewSpec) body(withRequest bool, apiVersion, kind string, pad int) []byte {
	pod := rs.Pod.DeepCopy()
	pod.TypeMeta = metav1.TypeMeta{APIVersion: "v1", Kind: "Pod"}
	if pad > 0 {
		if pod.Labels == nil {
			pod.Labels = map[string]string{}
		}
		pod.Labels["pad"] = strings.Repeat("x", pad)
	}
	raw, _ := json.Marshal(pod)
	rv := admissionv1.AdmissionReview{TypeMeta: metav1.TypeMeta{APIVersion: apiVersion, Kind: kind}}
	if withRequest {
		rv.Request = &admissionv1.AdmissionRequest{UID: types.UID(rs.UID), Kind: metav1.GroupVersionKind{Version: "v1", Kind: "Pod"},
			Resource: metav1.GroupVersionResource{Version: "v1", Resource: "pods"}, RequestSubResource: rs.Sub, Namespace: rs.Namespace, Name: pod.Name,
			Operation: admissionv1.Operation(rs.Op), UserInfo: authenticationv1.UserInfo{Username: rs.User}, Object: runtime.RawExtension{Raw: raw}}
		// a server-side dry run (kubectl --dry-run=server) is judged like the real thing
		if len(rs.UID)%3 == 0 {
			yes := true
			rv.Request.DryRun = &yes
		}
	}
	b, _ := json.Marshal(rv)
	return b
}

func randReview(r *rand.Rand, i int) reviewSpec {
	lvs := candidateLVs([]map[string]string{c16Namespaces["restricted"], c16Namespaces["baseline"]}, c16Cfg().Defaults)
	p := admPod(r, true, fmt.Sprintf("pod-%d", i), lvs)
	p.Annotations["unique"] = fmt.Sprint(i)
	return reviewSpec{UID: fmt.Sprintf("uid-%d-%d", i, r.Int63()), Namespace: pick(r, []string{"priv", "priv", "restricted", "baseline", "exempt-ns", "badlabels", "nosuch"}),
		User: pick(r, []string{"alice", "alice", "exempt-user"}), Sub: pick(r, []string{"", "", "", "status", "ephemeralcontainers"}), Op: pick(r, []string{"CREATE", "CREATE", "DELETE"}), Pod: p}
}

func buildServer() (*server.Server, *admission.Admission) {
	cfg := c16Cfg()
	a, err := adm.NewAdmission(&cfg, adm.MarkerEvaluator{}, adm.NullMetrics{}, staticNS{c16Namespaces}, noPods{})
	if err != nil {
		panic(err)
	}
	return server.VerifNewServer(a), a
}

// failingWriter accepts okBytes bytes and then fails every Write: a client that has gone away.
type failingWriter struct {
	h       http.Header
	okBytes int
}

func (f *failingWriter) Header() http.Header { return f.h }
func (f *failingWriter) WriteHeader(int)     {}
func (f *failingWriter) Write(b []byte) (int, error) {
	if len(b) <= f.okBytes {
		f.okBytes -= len(b)
		return len(b), nil
	}
	n := f.okBytes
	f.okBytes = 0
	return n, errors.New("write: broken pipe")
}

type exchange struct {
	Status  int
	UID     *string
	Allowed *bool
	Panic   string
}

// unsized hides the length of a reader, so the request has no Content-Length (chunked transfer).
type unsized struct{ io.Reader }

func doExchange(srv *server.Server, body io.Reader, hasBody bool, ctype string) (ex exchange) {
	var req *http.Request
	if hasBody {
		if strings.HasSuffix(ctype, "#chunked") {
			ctype = strings.TrimSuffix(ctype, "#chunked")
			body = unsized{body}
		}
		req = httptest.NewRequest(http.MethodPost, "/?timeout=5s", body)
	} else {
		req = httptest.NewRequest(http.MethodPost, "/", nil)
	}
	if ctype != "<none>" {
		req.Header.Set("Content-Type", ctype)
	}
	rec := httptest.NewRecorder()
	func() {
		defer func() {
			if e := recover(); e != nil {
				ex.Panic = fmt.Sprint(e)
			}
		}()
		srv.HandleValidate(rec, req)
	}()
	if ex.Panic != "" {
		return
	}
	ex.Status = rec.Code
	if rec.Code == 200 {
		var rv admissionv1.AdmissionReview
		if err := json.Unmarshal(rec.Body.Bytes(), &rv); err == nil && rv.Response != nil {
			u := string(rv.Response.UID)
			ex.UID = &u
			al := rv.Response.Allowed
			ex.Allowed = &al
		}
	}
	return
}

func optBoolTerm(b *bool) string {
	if b == nil {
		return "None"
	}
	return cq.App("Some", cq.Bool(*b))
}

// C16 builds the webhook stream.
func C16(seed int64, n int) (*cq.Set, *cq.Interner) {
	r := rand.New(rand.NewSource(seed))
	in := cq.NewInterner()
	set := &cq.Set{Stream: "c16", Seed: seed, Imports: "Model.Api Model.Pod Model.Checks Model.Admission Model.Wire Model.Webhook Corr.Adm Corr.C16", CaseTy: "c16_case", RunFn: "run_c16",
		Rule: "HTTP exchanges with HandleValidate (hook H2, fake namespace source, marker evaluator): well-formed v1 reviews for pods in privileged / restricted / baseline / exempt / malformed-label / missing namespaces, and each malformed class: no body, sizes 3MiB-1 / 3MiB / 3MiB+1, content types other than exactly application/json, undecodable JSON, unregistered version, another kind, review without request; plus a concurrent run of 8 clients x 400 reviews answered from shared response objects, checking every UID, and the shared objects' UID fields afterwards; distinct by (class, review); non-trivial = every case"}
	srv, a := buildServer()
	cfg := c16Cfg()
	const limit = 3 * 1024 * 1024
	add := func(class string, rs reviewSpec, body []byte, hasBody bool, ctype, payload string) {
		ex := doExchange(srv, bytes.NewReader(body), hasBody, ctype)
		var lib *bool
		reqS, wS := rs.reqSpec(), rs.worldSpec()
		if payload == "review" {
			resp := a.Validate(context.Background(), api.RequestAttributes(&admissionv1.AdmissionRequest{UID: types.UID(rs.UID), Kind: metav1.GroupVersionKind{Version: "v1", Kind: "Pod"},
				Resource: metav1.GroupVersionResource{Version: "v1", Resource: "pods"}, RequestSubResource: rs.Sub, Namespace: rs.Namespace, Name: rs.Pod.Name,
				Operation: admissionv1.Operation(rs.Op), UserInfo: authenticationv1.UserInfo{Username: rs.User}}, nil))
			_ = resp
			o := adm.Run(&cfg, adm.MarkerEvaluator{}, &reqS, &wS)
			if o.Resp != nil {
				al := o.Resp.Allowed
				lib = &al
			}
		}
		var pl string
		switch payload {
		case "review":
			pl = cq.App("Review", in.S(rs.UID), adm.ReqTerm(in, &reqS), adm.WorldTerm(in, &wS))
		case "norequest":
			pl = "ReviewNoRequest"
		case "otherkind":
			pl = "OtherKind"
		default:
			pl = "Garbage"
		}
		ct := strings.TrimSuffix(ctype, "#chunked")
		if ct == "<none>" {
			ct = ""
		}
		q := cq.App("HttpRequest", cq.Bool(hasBody), cq.N(uint64(len(body))), in.S(ct), pl)
		status := int64(ex.Status)
		uid := "None"
		if ex.UID != nil {
			uid = cq.App("Some", in.S(*ex.UID))
		}
		term := cq.App("C16Case", adm.CfgTerm(in, &cfg), q, optBoolTerm(lib), cq.Z(status), uid, optBoolTerm(ex.Allowed))
		sample := map[string]interface{}{"class": class, "review": rs, "content_type": ctype, "body_bytes": len(body), "status": ex.Status, "panic": ex.Panic}
		set.Cases = append(set.Cases, cq.Case{Term: term, Key: class + "|" + rs.UID + "|" + ctype, Nontrivial: true, Tags: []string{"class:" + class, fmt.Sprintf("status:%d", ex.Status)}, Sample: sample, Uses: in.TakeUses()})
	}
	for i := 0; i < n; i++ {
		rs := randReview(r, i)
		add("wellformed", rs, rs.body(true, "admission.k8s.io/v1", "AdmissionReview", 0), true, "application/json", "review")
	}
	rs := randReview(r, 100000)
	good := rs.body(true, "admission.k8s.io/v1", "AdmissionReview", 0)
	add("nobody", rs, nil, false, "application/json", "garbage")
	for _, ct := range []string{"application/json; charset=utf-8", "text/plain", "<none>", "Application/JSON", "application/yaml", "application/json "} {
		add("contenttype", rs, good, true, ct, "review")
	}
	add("garbage", rs, []byte("{not json"), true, "application/json", "garbage")
	add("garbage-empty-object", rs, []byte("{}"), true, "application/json", "garbage")
	add("v1beta1", rs, rs.body(true, "admission.k8s.io/v1beta1", "AdmissionReview", 0), true, "application/json", "garbage")
	add("unknown-kind", rs, rs.body(true, "admission.k8s.io/v1", "AdmissionRevue", 0), true, "application/json", "garbage")
	podJSON, _ := json.Marshal(&corev1.Pod{TypeMeta: metav1.TypeMeta{APIVersion: "v1", Kind: "Pod"}, ObjectMeta: metav1.ObjectMeta{Name: "p"}})
	add("otherkind-pod", rs, podJSON, true, "application/json", "otherkind")
	add("norequest", rs, rs.body(false, "admission.k8s.io/v1", "AdmissionReview", 0), true, "application/json", "norequest")
	// ... also right after well-formed traffic, repeatedly: state kept between requests (pooled objects,
	// reused buffers) must not turn a review without request into an answered one
	for i := 0; i < 24; i++ {
		rs3 := randReview(r, 300000+i)
		add("wellformed", rs3, rs3.body(true, "admission.k8s.io/v1", "AdmissionReview", 0), true, "application/json", "review")
		add("norequest-after-traffic", rs3, rs3.body(false, "admission.k8s.io/v1", "AdmissionReview", 0), true, "application/json", "norequest")
		if i%4 == 0 {
			add("garbage-after-traffic", rs3, []byte("{not json"), true, "application/json", "garbage")
		}
	}
	base := len(rs.body(true, "admission.k8s.io/v1", "AdmissionReview", 1)) - 1
	for _, size := range []int{limit - 1, limit, limit + 1, limit + 4096} {
		b := rs.body(true, "admission.k8s.io/v1", "AdmissionReview", size-base)
		if len(b) != size {
			panic(fmt.Sprintf("padding arithmetic: %d != %d", len(b), size))
		}
		add(fmt.Sprintf("size:%d", size-limit), rs, b, true, "application/json", "review")
	}
	// a client that goes away while its answer is being written must not affect the next answer
	for i := 0; i < 8; i++ {
		gone := randReview(r, 400000+i)
		greq := httptest.NewRequest(http.MethodPost, "/", bytes.NewReader(gone.body(true, "admission.k8s.io/v1", "AdmissionReview", 0)))
		greq.Header.Set("Content-Type", "application/json")
		func() {
			defer func() { _ = recover() }()
			srv.HandleValidate(&failingWriter{h: http.Header{}, okBytes: i * 7}, greq)
		}()
		next := randReview(r, 500000+i)
		add("after-failed-write", next, next.body(true, "admission.k8s.io/v1", "AdmissionReview", 0), true, "application/json", "review")
	}
	// forward compatibility: a review from a newer API server carries fields this build does not know,
	// in the request and in the embedded object; it is still a well-formed v1 review
	for i := 0; i < 6; i++ {
		rs2 := randReview(r, 200000+i)
		b := rs2.body(true, "admission.k8s.io/v1", "AdmissionReview", 0)
		b = bytes.Replace(b, []byte(`"request":{`), []byte(`"request":{"futureRequestField":{"a":1},`), 1)
		b = bytes.Replace(b, []byte(`"spec":{`), []byte(`"spec":{"futureSpecField":"x",`), 1)
		add("forward-compatible", rs2, b, true, "application/json", "review")
	}
	// bodies of unknown length (chunked): a complete review followed by whitespace up to and beyond the limit
	for _, size := range []int{limit - 1, limit, limit + 1, limit + 1024} {
		b := append(append([]byte{}, good...), bytes.Repeat([]byte(" "), size-len(good))...)
		add(fmt.Sprintf("chunked-size:%d", size-limit), rs, b, true, "application/json#chunked", "review")
	}
	add("chunked-small", rs, good, true, "application/json#chunked", "review")
	// concurrent clients against one server
	ts := httptest.NewServer(http.HandlerFunc(srv.HandleValidate))
	defer ts.Close()
	var wrong, total int64
	var firstWrong atomic.Value
	var wg sync.WaitGroup
	for c := 0; c < 8; c++ {
		wg.Add(1)
		seedc := r.Int63()
		go func(c int) {
			defer wg.Done()
			rr := rand.New(rand.NewSource(seedc))
			client := &http.Client{}
			for i := 0; i < 400; i++ {
				rs := randReview(rr, c*100000+i)
				resp, err := client.Post(ts.URL, "application/json", bytes.NewReader(rs.body(true, "admission.k8s.io/v1", "AdmissionReview", 0)))
				atomic.AddInt64(&total, 1)
				if err != nil {
					atomic.AddInt64(&wrong, 1)
					firstWrong.CompareAndSwap(nil, "transport error: "+err.Error())
					continue
				}
				var rv admissionv1.AdmissionReview
				data, _ := io.ReadAll(resp.Body)
				resp.Body.Close()
				if resp.StatusCode != 200 || json.Unmarshal(data, &rv) != nil || rv.Response == nil || string(rv.Response.UID) != rs.UID {
					atomic.AddInt64(&wrong, 1)
					got := "<none>"
					if rv.Response != nil {
						got = string(rv.Response.UID)
					}
					firstWrong.CompareAndSwap(nil, fmt.Sprintf("status %d, sent uid %s, got uid %s", resp.StatusCode, rs.UID, got))
				}
			}
		}(c)
	}
	wg.Wait()
	if wrong > 0 {
		set.GoFails = append(set.GoFails, cq.GoFail{What: fmt.Sprintf("%d of %d concurrent reviews were answered with a wrong uid or status (first: %v)", wrong, total, firstWrong.Load()), Replay: map[string]interface{}{"clients": 8, "per_client": 400}})
	}
	for name, p := range admission.VerifSharedResponses() {
		if p.UID != "" {
			set.GoFails = append(set.GoFails, cq.GoFail{What: fmt.Sprintf("the shared admission response %q carries uid %q after serving reviews: the webhook wrote into a process-wide shared object", name, p.UID), Replay: map[string]interface{}{"shared": name}})
		}
	}
	set.Extra = map[string]interface{}{"concurrent_reviews": total, "concurrent_wrong": wrong}
	return set, in
}
