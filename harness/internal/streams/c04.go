package streams

import (
	"fmt"
	"math/rand"
	"strings"
	"time"

	corev1 "k8s.io/api/core/v1"
	metav1 "k8s.io/apimachinery/pkg/apis/meta/v1"
	"k8s.io/pod-security-admission/api"
	"k8s.io/pod-security-admission/policy"
	"psaverif/internal/cq"
	"psaverif/internal/enc"
)

type mRev struct {
	Latest    bool
	Zero      bool
	Minor     int
	Overrides []string
}
type mCheck struct {
	ID    string
	Level string
	Revs  []mRev
}

func (r mRev) version() api.Version {
	if r.Latest {
		return api.LatestVersion()
	}
	if r.Zero {
		return api.Version{}
	}
	return api.MajorMinorVersion(1, r.Minor)
}

func marker(id string, i int) string { return fmt.Sprintf("%s@%d", id, i) }

func buildChecks(cs []mCheck) []policy.Check {
	var out []policy.Check
	for _, c := range cs {
		pc := policy.Check{ID: policy.CheckID(c.ID), Level: api.Level(c.Level)}
		for i, r := range c.Revs {
			m := marker(c.ID, i)
			var ov []policy.CheckID
			for _, o := range r.Overrides {
				ov = append(ov, policy.CheckID(o))
			}
			pc.Versions = append(pc.Versions, policy.VersionedCheck{MinimumVersion: r.version(), OverrideCheckIDs: ov,
				CheckPod: func(*metav1.ObjectMeta, *corev1.PodSpec) policy.CheckResult {
					return policy.CheckResult{Allowed: false, ForbiddenReason: m}
				}})
		}
		out = append(out, pc)
	}
	return out
}

func checksTerm(in *cq.Interner, cs []mCheck) string {
	var items []string
	for _, c := range cs {
		var revs []string
		for i, r := range c.Revs {
			revs = append(revs, cq.App("VC", enc.Version(r.version()), in.S(marker(c.ID, i)), in.StrList(r.Overrides)))
		}
		items = append(items, cq.App("CK", in.S(c.ID), in.S(c.Level), cq.List(revs)))
	}
	return cq.List(items)
}

var c04IDs = []string{"a", "b", "c", "d", "e", "f", "aa", "B", "ab", "z"}

func randValidSet(r *rand.Rand) []mCheck {
	n := r.Intn(7)
	perm := r.Perm(len(c04IDs))
	var cs []mCheck
	for i := 0; i < n; i++ {
		c := mCheck{ID: c04IDs[perm[i]], Level: "baseline"}
		if r.Intn(100) < 45 {
			c.Level = "restricted"
		}
		k := 1 + r.Intn(4)
		m := r.Intn(6)
		for j := 0; j < k; j++ {
			c.Revs = append(c.Revs, mRev{Minor: m})
			m += 1 + r.Intn(4)
		}
		cs = append(cs, c)
	}
	// overrides: restricted revisions override baseline ids or unknown ids, possibly starting mid-history
	for i := range cs {
		if cs[i].Level != "restricted" {
			continue
		}
		for j := range cs[i].Revs {
			if r.Intn(100) < 45 {
				for _, o := range cs {
					if o.Level == "baseline" && r.Intn(100) < 50 {
						cs[i].Revs[j].Overrides = append(cs[i].Revs[j].Overrides, o.ID)
					}
				}
				if r.Intn(100) < 20 {
					cs[i].Revs[j].Overrides = append(cs[i].Revs[j].Overrides, "unknown-id")
				}
			}
		}
	}
	return cs
}

// breakSet applies one malformation class.
func breakSet(r *rand.Rand, cs []mCheck) ([]mCheck, string) {
	if len(cs) == 0 {
		cs = []mCheck{{ID: "a", Level: "baseline", Revs: []mRev{{Minor: 1}}}}
	}
	i := r.Intn(len(cs))
	switch r.Intn(9) {
	case 0:
		// the same id again: at the same or at the other level, appended or inserted before the original
		lvl := cs[i].Level
		if r.Intn(2) == 0 {
			lvl = map[string]string{"baseline": "restricted", "restricted": "baseline"}[lvl]
			if lvl == "" {
				lvl = "baseline"
			}
		}
		dup := mCheck{ID: cs[i].ID, Level: lvl, Revs: []mRev{{Minor: 3}}}
		if r.Intn(2) == 0 {
			cs = append(cs, dup)
		} else {
			cs = append([]mCheck{dup}, cs...)
		}
		return cs, "duplicate id"
	case 1:
		cs[i].Level = []string{"privileged", "", "Baseline", "other"}[r.Intn(4)]
		return cs, "invalid level"
	case 2:
		cs[i].Revs = nil
		return cs, "no versions"
	case 3:
		cs[i].Revs[r.Intn(len(cs[i].Revs))] = mRev{Zero: true}
		return cs, "zero version"
	case 4:
		cs[i].Revs[r.Intn(len(cs[i].Revs))].Latest = true
		return cs, "latest version"
	case 5:
		j := r.Intn(len(cs[i].Revs))
		cs[i].Revs = append(cs[i].Revs[:j+1], append([]mRev{{Minor: cs[i].Revs[j].Minor}}, cs[i].Revs[j+1:]...)...)
		return cs, "duplicate version"
	case 6:
		cs[i].Revs = append(cs[i].Revs, mRev{Minor: cs[i].Revs[0].Minor - 0})
		if len(cs[i].Revs) == 2 && cs[i].Revs[0].Minor == cs[i].Revs[1].Minor {
			cs[i].Revs[1].Minor = cs[i].Revs[0].Minor // equal => still malformed (duplicate)
		}
		return cs, "non-increasing version"
	case 7:
		// baseline check with overrides
		for k := range cs {
			if cs[k].Level == "baseline" {
				cs[k].Revs[0].Overrides = []string{"x"}
				return cs, "override by baseline check"
			}
		}
		cs[i].Level = "baseline"
		cs[i].Revs[0].Overrides = []string{"x"}
		return cs, "override by baseline check"
	default:
		// restricted overriding a restricted check
		var rs []int
		for k := range cs {
			if cs[k].Level == "restricted" {
				rs = append(rs, k)
			}
		}
		if len(rs) == 0 {
			cs = append(cs, mCheck{ID: "r1", Level: "restricted", Revs: []mRev{{Minor: 2}}}, mCheck{ID: "r2", Level: "restricted", Revs: []mRev{{Minor: 2}}})
			rs = []int{len(cs) - 2, len(cs) - 1}
		}
		if len(rs) == 1 {
			cs[rs[0]].Revs[0].Overrides = []string{cs[rs[0]].ID}
		} else {
			cs[rs[0]].Revs[len(cs[rs[0]].Revs)-1].Overrides = []string{cs[rs[1]].ID}
		}
		return cs, "override of restricted check"
	}
}

func c04Versions(cs []mCheck) []api.Version {
	set := map[int]bool{0: true, 1: true}
	max := 0
	for _, c := range cs {
		for _, r := range c.Revs {
			if r.Latest || r.Zero {
				continue
			}
			set[r.Minor] = true
			set[r.Minor+1] = true
			if r.Minor > 0 {
				set[r.Minor-1] = true
			}
			if r.Minor > max {
				max = r.Minor
			}
		}
	}
	set[max+1] = true
	set[max+2] = true
	set[max+50] = true
	var out []api.Version
	for m := 0; m <= max+50; m++ {
		if set[m] {
			out = append(out, api.MajorMinorVersion(1, m))
		}
	}
	out = append(out, api.LatestVersion(), api.MajorMinorVersion(2, 0), api.MajorMinorVersion(0, 3), api.Version{})
	return out
}

func c04Case(in *cq.Interner, cs []mCheck, why string) (cq.Case, *cq.GoFail) {
	type res struct {
		ev  policy.Evaluator
		err error
		pan interface{}
	}
	ch := make(chan res, 1)
	go func() {
		defer func() {
			if e := recover(); e != nil {
				ch <- res{pan: e}
			}
		}()
		ev, err := policy.NewEvaluator(buildChecks(cs))
		ch <- res{ev: ev, err: err}
	}()
	sample := map[string]interface{}{"checks": cs, "class": why}
	var rr res
	select {
	case rr = <-ch:
	case <-time.After(5 * time.Second):
		return cq.Case{}, &cq.GoFail{What: "policy.NewEvaluator did not return within 5s on this check set", Replay: sample}
	}
	if rr.pan != nil {
		return cq.Case{}, &cq.GoFail{What: fmt.Sprintf("policy.NewEvaluator panicked: %v", rr.pan), Replay: sample}
	}
	var rows []string
	var rowsJS []interface{}
	if rr.err == nil {
		pod := &corev1.Pod{}
		for _, v := range c04Versions(cs) {
			for _, l := range []api.Level{api.LevelBaseline, api.LevelRestricted, api.LevelPrivileged} {
				results := rr.ev.EvaluatePod(api.LevelVersion{Level: l, Version: v}, &pod.ObjectMeta, &pod.Spec)
				var ms []string
				for _, x := range results {
					ms = append(ms, x.ForbiddenReason)
				}
				lt, _ := enc.Level(l)
				rows = append(rows, "("+lt+", "+enc.Version(v)+", "+in.StrList(ms)+")")
				if len(rowsJS) < 12 {
					rowsJS = append(rowsJS, map[string]interface{}{"level": l, "version": v.String(), "ran": strings.Join(ms, ",")})
				}
			}
		}
	}
	sample["error"] = fmt.Sprint(rr.err)
	sample["rows"] = rowsJS
	term := cq.App("C04Case", checksTerm(in, cs), cq.Bool(rr.err != nil), cq.List(rows))
	return cq.Case{Term: term, Key: fmt.Sprintf("%+v", cs), Nontrivial: len(cs) > 0, Tags: []string{"class:" + why, fmt.Sprintf("checks:%d", len(cs)), fmt.Sprintf("err:%v", rr.err != nil)}, Sample: sample, Uses: in.TakeUses()}, nil
}

// C04 builds the check-set stream: literal corner cases, n random valid sets, n/2 malformed ones.
func C04(seed int64, n int) (*cq.Set, *cq.Interner) {
	r := rand.New(rand.NewSource(seed))
	in := cq.NewInterner()
	set := &cq.Set{Stream: "c04", Seed: seed, Imports: "Model.Api Model.Registry Corr.C04", CaseTy: "c04_case", RunFn: "run_c04",
		Rule: "check sets of 0-6 marker checks with 1-4 revisions, gaps, overrides starting mid-history or naming unknown ids (valid), plus each malformation class; each valid set evaluated at every boundary version +-1, max+1, max+2, max+50, latest, v2.0, v0.3 and the zero version x 3 levels; distinct by check set; non-trivial = non-empty set"}
	add := func(cs []mCheck, why string) {
		c, gf := c04Case(in, cs, why)
		if gf != nil {
			set.GoFails = append(set.GoFails, *gf)
			return
		}
		set.Cases = append(set.Cases, c)
	}
	add(nil, "empty")
	add([]mCheck{{ID: "a", Level: "baseline", Revs: []mRev{{Minor: 0}}}}, "single")
	add([]mCheck{{ID: "a", Level: "restricted", Revs: []mRev{{Minor: 3}}}}, "single-restricted")
	add([]mCheck{{ID: "b", Level: "baseline", Revs: []mRev{{Minor: 0}, {Minor: 5}}}, {ID: "a", Level: "restricted", Revs: []mRev{{Minor: 2, Overrides: []string{"b"}}, {Minor: 4}}}}, "override-ends")
	add([]mCheck{{ID: "b", Level: "baseline", Revs: []mRev{{Minor: 0}}}, {ID: "a", Level: "restricted", Revs: []mRev{{Minor: 0}, {Minor: 4, Overrides: []string{"b"}}}}}, "override-starts-mid")
	add([]mCheck{{ID: "b", Level: "baseline", Revs: []mRev{{Minor: 7}}}, {ID: "B", Level: "baseline", Revs: []mRev{{Minor: 1}}}, {ID: "a", Level: "restricted", Revs: []mRev{{Minor: 3, Overrides: []string{"nosuch", "b"}}}}}, "override-before-intro")
	for i := 0; i < n; i++ {
		add(randValidSet(r), "valid")
	}
	for i := 0; i < n/2; i++ {
		cs, why := breakSet(r, randValidSet(r))
		add(cs, "malformed:"+why)
	}
	return set, in
}
