package streams

import (
	"fmt"
	"math/rand"
	"reflect"
	"runtime"
	"sort"
	"strings"

	corev1 "k8s.io/api/core/v1"
	"k8s.io/pod-security-admission/api"
	"k8s.io/pod-security-admission/policy"
	"psaverif/internal/cq"
	"psaverif/internal/enc"
	"psaverif/internal/podgen"
)

// Rev is one registered check revision with the Go function bound to it.
type Rev struct {
	ID    string
	Level api.Level
	Min   api.Version
	Fn    string
	Check policy.CheckPodFn
}

func FuncName(f policy.CheckPodFn) string {
	n := runtime.FuncForPC(reflect.ValueOf(f).Pointer()).Name()
	if i := strings.LastIndex(n, "."); i >= 0 {
		n = n[i+1:]
	}
	return n
}

func Revisions() []Rev {
	var out []Rev
	for _, c := range policy.DefaultChecks() {
		for _, v := range c.Versions {
			out = append(out, Rev{ID: string(c.ID), Level: c.Level, Min: v.MinimumVersion, Fn: enc.RevisionLabel(string(c.ID), v.MinimumVersion.Major(), v.MinimumVersion.Minor(), FuncName(v.CheckPod)), Check: v.CheckPod})
		}
	}
	return out
}

// BoundaryVersions: every revision boundary b of the registered table, b-1, b+1,
// 0, max, max+1, max+2, a far-future value, and latest.
func BoundaryVersions() []api.Version {
	set := map[int]bool{0: true}
	max := 0
	for _, r := range Revisions() {
		m := r.Min.Minor()
		set[m] = true
		set[m+1] = true
		if m > 0 {
			set[m-1] = true
		}
		if m > max {
			max = m
		}
	}
	set[max+1] = true
	set[max+2] = true
	set[1000] = true
	var minors []int
	for m := range set {
		minors = append(minors, m)
	}
	sort.Ints(minors)
	out := []api.Version{}
	for _, m := range minors {
		out = append(out, api.MajorMinorVersion(1, m))
	}
	return append(out, api.LatestVersion())
}

func crTerm(in *cq.Interner, r policy.CheckResult) string {
	if r.Allowed && r.ForbiddenReason == "" && r.ForbiddenDetail == "" {
		return "cr_ok"
	}
	return cq.App("CR", cq.Bool(r.Allowed), in.S(r.ForbiddenReason), in.S(r.ForbiddenDetail))
}

type PodObs struct {
	BadOff []string // sparse denials of the per-revision calls, relax off
	BadOn  []string // ... relax on
	Checks []string // obs_check terms
	Evals  []string // obs_eval terms
	Denied map[string]bool
	Sample map[string]interface{}
}

// PodObserver evaluates pods through the real checks / evaluator.
type PodObserver struct {
	Revs      []Rev
	Versions  []api.Version
	Evaluator policy.Evaluator
	EvalErr   error
}

func NewPodObserver() *PodObserver {
	o := &PodObserver{Revs: Revisions(), Versions: BoundaryVersions()}
	o.Evaluator, o.EvalErr = policy.NewEvaluator(policy.DefaultChecks())
	return o
}

// safeCheck runs f and converts a panic into a denying result with a marker reason.
func safeCheck(f policy.CheckPodFn, pod *corev1.Pod) (res policy.CheckResult) {
	defer func() {
		if e := recover(); e != nil {
			res = policy.CheckResult{Allowed: false, ForbiddenReason: "PANIC", ForbiddenDetail: fmt.Sprint(e)}
		}
	}()
	return f(&pod.ObjectMeta, &pod.Spec)
}

func (o *PodObserver) safeEval(lv api.LevelVersion, pod *corev1.Pod) (res []policy.CheckResult) {
	defer func() {
		if e := recover(); e != nil {
			res = []policy.CheckResult{{Allowed: false, ForbiddenReason: "PANIC", ForbiddenDetail: fmt.Sprint(e)}}
		}
	}()
	return o.Evaluator.EvaluatePod(lv, &pod.ObjectMeta, &pod.Spec)
}

// Observe runs everything on one pod. fullRelax=true also records evaluator
// results with the relaxation switch on at every version.
func (o *PodObserver) Observe(in *cq.Interner, pod *corev1.Pod, fullRelax bool) PodObs {
	obs := PodObs{Denied: map[string]bool{}}
	defer policy.RelaxPolicyForUserNamespacePods(false)
	for _, relax := range []bool{false, true} {
		policy.RelaxPolicyForUserNamespacePods(relax)
		for ri, r := range o.Revs {
			res := safeCheck(r.Check, pod)
			if !res.Allowed && !relax {
				obs.Denied[r.ID] = true
			}
			if t := crTerm(in, res); t != "cr_ok" {
				if relax {
					obs.BadOn = append(obs.BadOn, cq.App("bd", fmt.Sprint(ri), t))
				} else {
					obs.BadOff = append(obs.BadOff, cq.App("bd", fmt.Sprint(ri), t))
				}
			}
		}
		if relax && !fullRelax {
			continue
		}
		for _, l := range []api.Level{api.LevelBaseline, api.LevelRestricted, api.LevelPrivileged} {
			var cells []string
			for _, v := range o.Versions {
				rs := o.safeEval(api.LevelVersion{Level: l, Version: v}, pod)
				var items []string
				for i, x := range rs {
					if t := crTerm(in, x); t != "cr_ok" {
						items = append(items, cq.App("bd", fmt.Sprint(i), t))
					}
				}
				if len(items) == 0 {
					cells = append(cells, fmt.Sprintf("cz %d", len(rs)))
				} else {
					cells = append(cells, cq.App("ce", fmt.Sprint(len(rs)), cq.List(items)))
				}
			}
			lt, _ := enc.Level(l)
			var rle []string
			for i := 0; i < len(cells); {
				j := i
				for j < len(cells) && cells[j] == cells[i] {
					j++
				}
				rle = append(rle, fmt.Sprintf("rp %d (%s)", j-i, cells[i]))
				i = j
			}
			obs.Evals = append(obs.Evals, cq.App("erow", cq.Bool(relax), lt, cq.List(rle)))
		}
	}
	return obs
}

func (o *PodObserver) Case(in *cq.Interner, n podgen.Named, fullRelax bool) cq.Case {
	a := enc.Alpha(&n.Pod.ObjectMeta, &n.Pod.Spec)
	obs := o.Observe(in, n.Pod, fullRelax)
	term := cq.App("PCm", "fns", "vers", enc.PodTerm(in, a), cq.List(obs.BadOff), cq.List(obs.BadOn), cq.List(obs.Evals))
	var denied []string
	for id := range obs.Denied {
		denied = append(denied, id)
	}
	sort.Strings(denied)
	tags := []string{"src:" + strings.SplitN(n.Desc, "+", 2)[0], fmt.Sprintf("denied_controls:%d", len(denied)),
		fmt.Sprintf("containers:%d/%d/%d", len(a.Init), len(a.Containers), len(a.Ephemeral))}
	for _, d := range denied {
		tags = append(tags, "denied:"+d)
	}
	if n.Malformed {
		tags = append(tags, "malformed")
	}
	if a.OS != nil && *a.OS == "windows" {
		tags = append(tags, "windows")
	}
	sample := map[string]interface{}{"desc": n.Desc, "pod": n.Pod, "denied_controls": denied, "malformed": n.Malformed}
	key := fmt.Sprintf("%+v", *a)
	key = PodKey(a)
	return cq.Case{Term: term, Key: key, Nontrivial: len(denied) > 0 || len(a.Init)+len(a.Containers)+len(a.Ephemeral) > 0, Tags: tags, Sample: sample, Uses: in.TakeUses()}
}

// PodKey is a canonical text of the abstract pod.
func PodKey(a *enc.APod) string {
	in := cq.NewInterner()
	t := enc.PodTerm(in, a)
	return t + "|" + in.Defs()
}

// FrameCheck: the executable form of C02's frame clause and the check that
// alpha loses nothing the checks read: every revision returns identical
// results on p (with junk in unmodelled fields) and on gamma(alpha(p)).
func (o *PodObserver) FrameCheck(r *rand.Rand, pod *corev1.Pod) *cq.GoFail {
	junked := pod.DeepCopy()
	podgen.Junk(r, junked)
	back := enc.Gamma(enc.Alpha(&junked.ObjectMeta, &junked.Spec))
	for _, relax := range []bool{false, true} {
		policy.RelaxPolicyForUserNamespacePods(relax)
		for _, rv := range o.Revs {
			a := safeCheck(rv.Check, junked)
			b := safeCheck(rv.Check, back)
			c := safeCheck(rv.Check, pod)
			if a != b || a != c {
				policy.RelaxPolicyForUserNamespacePods(false)
				return &cq.GoFail{What: fmt.Sprintf("frame clause: check %s (%s) gives different results on the pod, the pod with unrelated fields filled, and gamma(alpha(pod)): %+v / %+v / %+v", rv.ID, rv.Fn, c, a, b),
					Replay: map[string]interface{}{"pod": pod, "junked": junked, "signature": "frame/" + rv.ID}}
			}
		}
	}
	policy.RelaxPolicyForUserNamespacePods(false)
	return nil
}

// ReplayPod, when set, makes the pod streams evaluate just this pod (shrinking of a recorded case).
var ReplayPod *corev1.Pod

// Pods builds the shared pod stream: enumeration, then n random pods.
func Pods(stream string, seed int64, n int, imports, caseTy, runFn string, includeMalformed bool) (*cq.Set, *cq.Interner) {
	r := rand.New(rand.NewSource(seed))
	in := cq.NewInterner()
	o := NewPodObserver()
	set := &cq.Set{Stream: stream, Seed: seed, Imports: imports, CaseTy: caseTy, RunFn: runFn,
		Rule: "pods = small-scope enumeration (every single-location edit control x {pod, init, container, ephemeral} x value of a restricted-compliant base pod and of a windows base, pod x container pairs for runAsNonRoot/seccomp) + n random structured pods; each evaluated by all 25 registered revisions (relax off/on) and by the assembled evaluator at every boundary version x level; distinct by abstract pod; non-trivial = has a container or is denied by some control"}
	set.Prelude = func(in *cq.Interner) string {
		var fns []string
		for _, r := range o.Revs {
			fns = append(fns, in.S(r.Fn))
		}
		var vs []string
		for _, v := range o.Versions {
			vs = append(vs, enc.Version(v))
		}
		return "Definition fns : list string := " + cq.List(fns) + ".\nDefinition vers : list version := " + cq.List(vs) + ".\n"
	}
	if o.EvalErr != nil {
		set.GoFails = append(set.GoFails, cq.GoFail{What: "policy.NewEvaluator(DefaultChecks()) failed: " + o.EvalErr.Error(), Replay: map[string]interface{}{"signature": "newevaluator"}})
		return set, in
	}
	add := func(nm podgen.Named) {
		if nm.Malformed && !includeMalformed {
			return
		}
		set.Cases = append(set.Cases, o.Case(in, nm, true))
		if f := o.FrameCheck(r, nm.Pod); f != nil {
			set.GoFails = append(set.GoFails, *f)
		}
	}
	if ReplayPod != nil {
		includeMalformed = true
		add(podgen.Named{Desc: "replay", Pod: ReplayPod})
		return set, in
	}
	for _, nm := range podgen.Enumerate() {
		add(nm)
	}
	for i := 0; i < n; i++ {
		if i%2 == 0 {
			add(podgen.Pairs(r)) // two settings of one control: where one can mask another
		} else {
			add(podgen.Random(r))
		}
	}
	return set, in
}
