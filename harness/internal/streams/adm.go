//go:build verif

package streams

import (
	"encoding/json"
	"fmt"
	"math/rand"
	"sort"
	"strings"
	"time"

	corev1 "k8s.io/api/core/v1"
	metav1 "k8s.io/apimachinery/pkg/apis/meta/v1"
	"k8s.io/apimachinery/pkg/types"
	"k8s.io/pod-security-admission/api"
	"k8s.io/pod-security-admission/policy"
	"psaverif/internal/adm"
	"psaverif/internal/cq"
	"psaverif/internal/enc"
	"psaverif/internal/podgen"
)

var admVersions = []string{"latest", "v1.0", "v1.7", "v1.24", "v1.40"}
var admBadVersions = []string{"", "v1.05", "v2.0", "1.7", "latest ", "v1.7\n"}
var admBadLevels = []string{"", "Baseline", "restricted ", "bogus", "latest"}
var nsPool = []string{"ns", "ns", "ns", "exempt-ns", "exempt-n", "Exempt-ns", "exempt-ns2", "", "exempt-user", "kube-system", "exempt-rc"}
var userPool = []string{"alice", "alice", "alice", "exempt-user", "exempt-use", "EXEMPT-USER", "", "exempt-ns", "system:admin", "exempt-rc"}
var rcPool = []string{"", "exempt-rc", "exempt-rc2", "Exempt-rc", "kata", "gvisor", "exempt-user", "exempt-ns"}

// exemptHeavy: exemption hits and near-misses are drawn often (C06, C07, C18); other
// properties spend most of their budget on requests that reach evaluation.
var exemptHeavy = true

func pickNS(r *rand.Rand) string {
	if exemptHeavy || r.Intn(100) < 20 {
		return pick(r, nsPool)
	}
	return "ns"
}

func pickUser(r *rand.Rand) string {
	if exemptHeavy || r.Intn(100) < 20 {
		return pick(r, userPool)
	}
	return "alice"
}

func admLabelValue(r *rand.Rand, key string) string {
	x := r.Intn(100)
	if isLevelKey(key) {
		if x < 80 {
			return pick(r, LevelNames)
		}
		return pick(r, admBadLevels)
	}
	if x < 80 {
		return pick(r, admVersions)
	}
	return pick(r, admBadVersions)
}

// labelHook, when set, supplies the namespace labels of pod and controller scenarios (streams that want the
// same policy to recur within a history).
var labelHook func(r *rand.Rand) map[string]string

func nsLabelsFor(r *rand.Rand) map[string]string {
	if labelHook != nil {
		if ls := labelHook(r); ls != nil {
			return ls
		}
	}
	return admLabels(r, 40)
}

func admLabels(r *rand.Rand, pPresent int) map[string]string {
	m := map[string]string{}
	for _, k := range labelKeys {
		if r.Intn(100) < pPresent {
			m[k] = admLabelValue(r, k)
		}
	}
	if r.Intn(100) < 15 {
		m["app"] = "x"
	}
	return m
}

func admDefaults(r *rand.Rand) api.Policy {
	if r.Intn(100) < 40 {
		l := api.LevelVersion{Level: api.LevelPrivileged, Version: api.LatestVersion()}
		return api.Policy{Enforce: l, Audit: l, Warn: l}
	}
	lv := func() api.LevelVersion {
		return api.LevelVersion{Level: api.Level(pick(r, LevelNames)), Version: mustVersion(pick(r, admVersions))}
	}
	return api.Policy{Enforce: lv(), Audit: lv(), Warn: lv()}
}

func admCfg(r *rand.Rand, smallCap bool) adm.CfgSpec {
	c := adm.CfgSpec{Defaults: admDefaults(r)}
	switch r.Intn(10) {
	case 0:
		// no exemptions at all
	case 1:
		c.ExNS, c.ExUsers, c.ExRCs = []string{"exempt-user"}, []string{"exempt-ns", "exempt-rc"}, []string{"exempt-ns"} // cross-list values only
	case 2, 3, 4:
		// several entries per list, in any order
		sh := func(l []string) []string {
			out := append([]string{}, l...)
			r.Shuffle(len(out), func(i, j int) { out[i], out[j] = out[j], out[i] })
			return out[:1+r.Intn(len(out))]
		}
		c.ExNS, c.ExUsers, c.ExRCs = sh([]string{"kube-system", "exempt-ns", "zz-ns"}), sh([]string{"system:admin", "exempt-user", "a-user"}), sh([]string{"kata", "exempt-rc", "gvisor"})
	default:
		c.ExNS, c.ExUsers, c.ExRCs = []string{"kube-system", "exempt-ns"}, []string{"system:admin", "exempt-user"}, []string{"exempt-rc"}
	}
	if smallCap {
		c.MaxPods = 1 + r.Intn(5)
		c.Timeout = time.Duration(1+r.Intn(3)) * time.Second
	}
	return c
}

// classed pods for the real evaluator
func classPod(r *rand.Rand, name string) *corev1.Pod {
	p := podgen.Base()
	p.Spec.InitContainers = nil
	p.Spec.EphemeralContainers = nil
	switch r.Intn(6) {
	case 0, 1: // restricted-compliant
	case 2: // baseline only
		p.Spec.SecurityContext.SeccompProfile = nil
	case 3:
		p.Spec.Containers[0].SecurityContext.AllowPrivilegeEscalation = nil
		p.Spec.Containers[0].SecurityContext.Capabilities = nil
	case 4: // violates baseline
		p.Spec.HostNetwork = true
	default:
		t := true
		p.Spec.Containers[0].SecurityContext.Privileged = &t
		p.Spec.HostPID = r.Intn(2) == 0
	}
	if r.Intn(100) < 35 {
		// 1-3 init containers: more init containers than regular ones is a shape of its own
		for k := 0; k < 1+r.Intn(3); k++ {
			p.Spec.InitContainers = append(p.Spec.InitContainers, corev1.Container{Name: fmt.Sprintf("i%d", k), Image: fmt.Sprintf("img-i%d", k), SecurityContext: p.Spec.Containers[0].SecurityContext.DeepCopy()})
		}
	}
	if r.Intn(100) < 20 {
		p.Spec.Containers = append(p.Spec.Containers, corev1.Container{Name: "c2", Image: "img-c2", SecurityContext: p.Spec.Containers[0].SecurityContext.DeepCopy()})
	}
	if r.Intn(100) < 25 {
		p.Spec.EphemeralContainers = []corev1.EphemeralContainer{{EphemeralContainerCommon: corev1.EphemeralContainerCommon{Name: "e", Image: "img-e", SecurityContext: p.Spec.Containers[0].SecurityContext.DeepCopy()}}}
	}
	p.Name = name
	return p
}

func admPod(r *rand.Rand, marker bool, name string, lvs []api.LevelVersion) *corev1.Pod {
	var p *corev1.Pod
	if marker {
		p = classPod(r, name)
		p.Annotations = map[string]string{}
		for _, lv := range lvs {
			if r.Intn(100) < 35 {
				p.Annotations["m/"+lv.String()] = "violates-" + string(lv.Level)[:1] + lv.Version.String()
			}
		}
	} else if r.Intn(100) < 70 {
		p = classPod(r, name)
	} else {
		p = podgen.Random(r).Pod
		p.Name = name
	}
	if r.Intn(100) < 25 {
		rc := pick(r, rcPool)
		p.Spec.RuntimeClassName = &rc
	}
	return p
}

// candidate level:version keys a scenario can resolve to
func candidateLVs(labels []map[string]string, d api.Policy) []api.LevelVersion {
	vs := map[api.Version]bool{api.LatestVersion(): true, d.Enforce.Version: true, d.Audit.Version: true, d.Warn.Version: true}
	for _, ls := range labels {
		for k, v := range ls {
			if !isLevelKey(k) {
				if pv, err := api.ParseVersion(v); err == nil {
					vs[pv] = true
				}
			}
		}
	}
	var out []api.LevelVersion
	for v := range vs {
		for _, l := range []api.Level{api.LevelBaseline, api.LevelRestricted} {
			out = append(out, api.LevelVersion{Level: l, Version: v})
		}
	}
	sort.Slice(out, func(i, j int) bool { return out[i].String() < out[j].String() })
	return out
}

type scenario struct {
	Cfg    adm.CfgSpec
	Marker bool
	Req    adm.ReqSpec
	World  adm.WorldSpec
	LVs    []api.LevelVersion
	Tags   []string
}

func mutateForUpdate(r *rand.Rand, p *corev1.Pod) (*corev1.Pod, string) {
	old := p.DeepCopy()
	if len(p.Spec.Containers) == 0 {
		p.Spec.Containers = []corev1.Container{{Name: "c", Image: "img-c"}}
		old = p.DeepCopy()
	}
	switch r.Intn(9) {
	case 0:
		return old, "identical"
	case 1:
		old.Labels = map[string]string{"was": "different"}
		old.Spec.Tolerations = []corev1.Toleration{{Key: "k"}}
		old.Finalizers = []string{"f"}
		return old, "metadata-only"
	case 2:
		// any position, biased to the last one
		k := len(old.Spec.Containers) - 1
		if r.Intn(3) == 0 {
			k = r.Intn(len(old.Spec.Containers))
		}
		old.Spec.Containers[k].Image = "old-image"
		return old, fmt.Sprintf("container-image@%d/%d", k, len(old.Spec.Containers))
	case 3:
		if len(old.Spec.InitContainers) == 0 {
			n := 1 + r.Intn(3)
			for k := 0; k < n; k++ {
				p.Spec.InitContainers = append(p.Spec.InitContainers, corev1.Container{Name: fmt.Sprintf("i%d", k), Image: fmt.Sprintf("img-i%d", k), SecurityContext: p.Spec.Containers[0].SecurityContext.DeepCopy()})
			}
			old.Spec.InitContainers = p.DeepCopy().Spec.InitContainers
		}
		k := len(old.Spec.InitContainers) - 1
		if r.Intn(3) == 0 {
			k = r.Intn(len(old.Spec.InitContainers))
		}
		old.Spec.InitContainers[k].Image = "old-image"
		return old, fmt.Sprintf("init-image@%d/%d(containers=%d)", k, len(old.Spec.InitContainers), len(old.Spec.Containers))
	case 4:
		if len(p.Spec.EphemeralContainers) == 0 {
			p.Spec.EphemeralContainers = []corev1.EphemeralContainer{{EphemeralContainerCommon: corev1.EphemeralContainerCommon{Name: "dbg", Image: "busybox"}}}
			return old, "ephemeral-added"
		}
		old.Spec.EphemeralContainers[0].Image = "old-image"
		return old, "ephemeral-image"
	case 5:
		p.Spec.EphemeralContainers = append(p.Spec.EphemeralContainers, corev1.EphemeralContainer{EphemeralContainerCommon: corev1.EphemeralContainerCommon{Name: "dbg2", Image: "busybox"}})
		return old, "ephemeral-added"
	case 6:
		old.Spec.Containers = append(old.Spec.Containers, corev1.Container{Name: "gone", Image: "x"})
		return old, "container-count"
	case 7:
		// security fields differ but images do not: insignificant by the rule
		old.Spec.HostNetwork = !old.Spec.HostNetwork
		return old, "security-only"
	default:
		// ephemeral containers reordered, same images
		if len(p.Spec.EphemeralContainers) >= 1 {
			old.Spec.EphemeralContainers = append([]corev1.EphemeralContainer{{EphemeralContainerCommon: corev1.EphemeralContainerCommon{Name: "zz", Image: "z"}}}, old.Spec.EphemeralContainers...)
			return old, "ephemeral-removed-reordered"
		}
		return old, "identical"
	}
}

// junkMeta fills metadata the properties do not mention (they must not influence any decision).
func junkMeta(r *rand.Rand, p *corev1.Pod) {
	p.Generation = int64(1 + r.Intn(5))
	p.ResourceVersion = fmt.Sprint(100 + r.Intn(100))
	p.UID = types.UID(fmt.Sprintf("uid-%d", r.Intn(1000)))
	if p.Labels == nil {
		p.Labels = map[string]string{}
	}
	p.Labels["pod-security.kubernetes.io/enforce"] = "privileged" // pod labels are not namespace labels
	p.Finalizers = []string{"example.com/f"}
	p.Spec.NodeName = "node-1"
	p.Spec.ServiceAccountName = "default"
	p.Spec.Priority = func() *int32 { x := int32(2000000000); return &x }()
}

func podScenario(r *rand.Rand, marker bool) scenario {
	s := scenario{Marker: marker, Cfg: admCfg(r, false)}
	ls := nsLabelsFor(r)
	if r.Intn(100) < 12 {
		ls = map[string]string{}
	}
	s.World.NSLabels = ls
	s.World.NSErr = r.Intn(100) < 6
	s.World.ErrKind = r.Intn(8)
	s.LVs = candidateLVs([]map[string]string{ls}, s.Cfg.Defaults)
	p := admPod(r, marker, "the-pod", s.LVs)
	if !marker && r.Intn(100) < 3 {
		// many offending containers with long names: every violated control must still be listed in full
		p.Spec.Containers = nil
		for k := 0; k < 40; k++ {
			p.Spec.Containers = append(p.Spec.Containers, corev1.Container{Name: fmt.Sprintf("container-with-a-rather-long-name-%02d", k), Image: "img"})
		}
	}
	s.Req = adm.ReqSpec{Group: "", Resource: "pods", Namespace: pickNS(r), Name: pick(r, []string{"the-pod", "the-pod", "the-pod", "the-pod", ""}), User: pickUser(r), Op: "CREATE"} // "": a generateName create
	switch x := r.Intn(100); {
	case x < 45:
	case x < 85:
		s.Req.Op = "UPDATE"
	case x < 92:
		s.Req.Op = "DELETE"
	default:
		s.Req.Op = "CONNECT"
	}
	switch x := r.Intn(100); {
	case x < 70:
	case x < 82:
		s.Req.Subresource = pick(r, []string{"exec", "attach", "binding", "eviction", "log", "portforward", "proxy", "status"})
	default:
		s.Req.Subresource = pick(r, []string{"ephemeralcontainers", "resize", "unknown", "Status", "status/x", "exec2", "log/rotate", "proxy/"})
	}
	s.Req.Object = adm.ObjSpec{Kind: "pod", Pod: p}
	kind := "pod"
	switch x := r.Intn(100); {
	case x < 84:
	case x < 88:
		s.Req.Object = adm.ObjSpec{Kind: "decodeerr"}
		kind = "decodeerr"
	case x < 92:
		s.Req.Object = adm.ObjSpec{Kind: "nil"}
		kind = "nil"
	case x < 95:
		s.Req.Object = adm.ObjSpec{Kind: "namespace", NSName: "x", Labels: map[string]string{}}
		kind = "wrongtype"
	case x < 97:
		s.Req.Object = adm.ObjSpec{Kind: "other"}
		kind = "wrongtype"
	default:
		s.Req.Object = adm.ObjSpec{Kind: "controller", CtlKind: "Deployment", Pod: p, HasTemplate: true}
		kind = "wrongtype"
	}
	s.Tags = append(s.Tags, "req:pod", "op:"+s.Req.Op, "object:"+kind)
	s.Req.Old = adm.ObjSpec{Kind: "nil"}
	if r.Intn(100) < 50 {
		junkMeta(r, p)
	}
	if s.Req.Op == "UPDATE" {
		oldKind := "pod"
		if kind == "pod" {
			old, why := mutateForUpdate(r, p)
			// fields outside the significance rule: equal / different generation, a different (maybe exempt) runtime class on the old pod
			switch r.Intn(4) {
			case 0:
				old.Generation = p.Generation
			case 1:
				old.Generation = p.Generation + 1
			}
			if r.Intn(100) < 30 {
				rc := pick(r, rcPool)
				if len(s.Cfg.ExRCs) > 0 && r.Intn(2) == 0 {
					rc = s.Cfg.ExRCs[r.Intn(len(s.Cfg.ExRCs))] // an exempt class on the OLD pod only: exempts nothing
					if cur := p.Spec.RuntimeClassName; cur != nil && *cur == rc {
						p.Spec.RuntimeClassName = nil
					}
					why += "+old-exempt"
				}
				old.Spec.RuntimeClassName = &rc
				why += "+old-runtimeclass"
			}
			s.Req.Old = adm.ObjSpec{Kind: "pod", Pod: old}
			s.Tags = append(s.Tags, "update:"+why)
		} else {
			s.Req.Old = adm.ObjSpec{Kind: "pod", Pod: p.DeepCopy()}
		}
		switch x := r.Intn(100); {
		case x < 88:
		case x < 92:
			s.Req.Old = adm.ObjSpec{Kind: "decodeerr"}
			oldKind = "decodeerr"
		case x < 96:
			s.Req.Old = adm.ObjSpec{Kind: "nil"}
			oldKind = "nil"
		default:
			s.Req.Old = adm.ObjSpec{Kind: "other"}
			oldKind = "wrongtype"
		}
		s.Tags = append(s.Tags, "old:"+oldKind)
	}
	s.Req.Wire = r.Intn(2) == 0
	return s
}

func controllerScenario(r *rand.Rand, marker bool) scenario {
	s := scenario{Marker: marker, Cfg: admCfg(r, false)}
	ls := nsLabelsFor(r)
	s.World.NSLabels = ls
	s.World.NSErr = r.Intn(100) < 6
	s.World.ErrKind = r.Intn(8)
	s.LVs = candidateLVs([]map[string]string{ls}, s.Cfg.Defaults)
	p := admPod(r, marker, "tmpl", s.LVs)
	p.Namespace = ""
	ck := adm.ControllerKinds[r.Intn(len(adm.ControllerKinds))]
	s.Req = adm.ReqSpec{Group: ck.Group, Resource: ck.Resource, Namespace: pickNS(r), Name: pick(r, []string{"ctl", "ctl", "ctl", ""}), User: pickUser(r), Op: pick(r, []string{"CREATE", "UPDATE", "UPDATE", "CREATE", "DELETE"})}
	if r.Intn(100) < 15 {
		s.Req.Subresource = pick(r, []string{"status", "scale", "x"})
	}
	s.Req.Object = adm.ObjSpec{Kind: "controller", CtlKind: ck.Kind, Pod: p, HasTemplate: r.Intn(100) < 90}
	kind := "controller:" + ck.Kind
	switch x := r.Intn(100); {
	case x < 82:
	case x < 86:
		s.Req.Object = adm.ObjSpec{Kind: "decodeerr"}
		kind = "decodeerr"
	case x < 90:
		s.Req.Object = adm.ObjSpec{Kind: "other"}
		kind = "wrongtype"
	case x < 93:
		s.Req.Object = adm.ObjSpec{Kind: "namespace", NSName: "n", Labels: nil}
		kind = "wrongtype"
	case x < 95:
		s.Req.Object = adm.ObjSpec{Kind: "pod", Pod: p} // a Pod object under a controller resource is evaluated as its own template
		kind = "pod-as-template"
	case x < 97:
		s.Req.Object = adm.ObjSpec{Kind: "nil"}
		kind = "nil"
	default:
		s.Req.Group, s.Req.Resource = "example.com", "widgets"
		s.Req.Object = adm.ObjSpec{Kind: "other"}
		kind = "unknown-resource"
	}
	s.Req.Old = adm.ObjSpec{Kind: "nil"}
	if r.Intn(100) < 60 {
		s.Req.Object.Generation = int64(1 + r.Intn(4))
	}
	if r.Intn(100) < 50 {
		s.Req.Object.CtlJunk = r.Intn(4) // suspended / paused / zero replicas: still judged by the template
	}
	if s.Req.Op == "UPDATE" && s.Req.Object.Kind == "controller" {
		// an UPDATE carries the old controller object: unchanged template, changed template, or another generation
		old := s.Req.Object
		old.Pod = p.DeepCopy()
		updKind := "unchanged-template"
		switch r.Intn(4) {
		case 0:
			old.Pod.Spec.HostNetwork = !old.Pod.Spec.HostNetwork
			updKind = "changed-template"
		case 1:
			old.Generation = s.Req.Object.Generation + 1
			old.CtlJunk = r.Intn(4)
			updKind = "unchanged-template+generation"
		case 2:
			if len(old.Pod.Spec.Containers) > 0 {
				old.Pod.Spec.Containers[0].Image = "old-image"
				updKind = "changed-image"
			}
		}
		s.Req.Old = old
		s.Tags = append(s.Tags, "ctl-update:"+updKind)
	}
	s.Tags = append(s.Tags, "req:controller", "op:"+s.Req.Op, "object:"+kind)
	s.Req.Wire = r.Intn(2) == 0
	return s
}

func listedPods(r *rand.Rand, marker bool, lvs []api.LevelVersion, n int) []*corev1.Pod {
	names := []string{"web-1", "web-2", "web-10", "api", "api-0", "db", "a", "zz", "web", "job-x", "b", "c", "web-3", "cache", "m"}
	perm := r.Perm(len(names))
	var out []*corev1.Pod
	for i := 0; i < n; i++ {
		var nm string
		if i < len(perm) {
			nm = names[perm[i]]
		} else {
			nm = fmt.Sprintf("p-%04d", i)
		}
		p := admPod(r, marker, nm, lvs)
		if r.Intn(100) < 35 {
			junkMeta(r, p)
		}
		switch r.Intn(10) { // lifecycle state is not part of the rule: every existing pod counts
		case 0:
			now := metav1.Now()
			p.DeletionTimestamp = &now
		case 1:
			p.Status.Phase = corev1.PodSucceeded
		case 2:
			p.Status.Phase = corev1.PodFailed
		case 3:
			p.Status.Phase = corev1.PodPending
		}
		if r.Intn(100) < 45 {
			t := r.Intn(100) < 90
			p.OwnerReferences = []metav1.OwnerReference{{UID: types.UID(pick(r, []string{"u1", "u2", "u3"})), Controller: &t}}
		}
		out = append(out, p)
	}
	return out
}

func namespaceScenario(r *rand.Rand, marker bool) scenario {
	s := scenario{Marker: marker, Cfg: admCfg(r, r.Intn(100) < 45)}
	oldLs := admLabels(r, 35)
	var newLs map[string]string
	switch x := r.Intn(100); {
	case x < 45: // tighten enforce
		newLs = map[string]string{}
		for k, v := range oldLs {
			newLs[k] = v
		}
		newLs[api.EnforceLevelLabel] = pick(r, []string{"baseline", "restricted", "restricted"})
		if r.Intn(100) < 40 {
			newLs[api.EnforceVersionLabel] = pick(r, admVersions)
		}
	case x < 60: // same labels
		newLs = map[string]string{}
		for k, v := range oldLs {
			newLs[k] = v
		}
	default:
		newLs = admLabels(r, 40)
	}
	nsName := pick(r, nsPool)
	if nsName == "" {
		nsName = "ns"
	}
	s.LVs = candidateLVs([]map[string]string{oldLs, newLs}, s.Cfg.Defaults)
	s.Req = adm.ReqSpec{Group: "", Resource: "namespaces", Namespace: nsName, Name: nsName, User: pick(r, userPool), Op: "UPDATE"}
	switch x := r.Intn(100); {
	case x < 70:
	case x < 90:
		s.Req.Op = "CREATE"
	default:
		s.Req.Op = "DELETE"
	}
	if r.Intn(100) < 6 {
		s.Req.Subresource = pick(r, []string{"status", "finalize"})
	}
	gen := int64(r.Intn(4))
	s.Req.Object = adm.ObjSpec{Kind: "namespace", NSName: nsName, Labels: newLs, Generation: gen}
	s.Req.Old = adm.ObjSpec{Kind: "namespace", NSName: nsName, Labels: oldLs, Generation: gen + int64(r.Intn(2))}
	kind := "namespace"
	switch x := r.Intn(100); {
	case x < 90:
	case x < 94:
		s.Req.Object = adm.ObjSpec{Kind: "decodeerr"}
		kind = "decodeerr"
	case x < 97:
		s.Req.Object = adm.ObjSpec{Kind: "nil"}
		kind = "nil"
	default:
		s.Req.Object = adm.ObjSpec{Kind: "other"}
		kind = "wrongtype"
	}
	if s.Req.Op == "UPDATE" {
		switch x := r.Intn(100); {
		case x < 92:
		case x < 96:
			s.Req.Old = adm.ObjSpec{Kind: "decodeerr"}
		default:
			s.Req.Old = adm.ObjSpec{Kind: "nil"}
		}
	} else {
		s.Req.Old = adm.ObjSpec{Kind: "nil"}
	}
	n := r.Intn(9)
	if s.Cfg.MaxPods > 0 && r.Intn(100) < 50 {
		n = s.Cfg.MaxPods - 1 + r.Intn(4)
		if n < 0 {
			n = 0
		}
	}
	s.World.Pods = listedPods(r, marker, s.LVs, n)
	if len(s.Cfg.ExRCs) > 0 && ((s.Cfg.MaxPods > 0 && r.Intn(100) < 25) || (s.Cfg.MaxPods == 0 && r.Intn(100) < 12)) {
		// a controller mid-rollout: its first listed pod runs under an exempt runtime class, its second one
		// does not and violates every candidate policy; then more bare pods than the budget
		n = s.Cfg.MaxPods + 2 + r.Intn(2)
		if s.Cfg.MaxPods == 0 {
			n = 3 + r.Intn(3)
		}
		pods := listedPods(r, marker, s.LVs, n)
		tr := true
		owner := []metav1.OwnerReference{{UID: "rollout", Controller: &tr}}
		rc := s.Cfg.ExRCs[r.Intn(len(s.Cfg.ExRCs))]
		if r.Intn(2) == 0 {
			// (a) the controller's first listed pod is exempt, its second one is not and violates
			pods[0].OwnerReferences, pods[0].Spec.RuntimeClassName = owner, &rc
			pods[1].OwnerReferences, pods[1].Spec.RuntimeClassName = owner, nil
		} else {
			// (b) the controller's first listed pod is ordinary, a later replica runs under the exempt class and
			// violates: it must be skipped, not evaluated as a duplicate replica
			pods[0].OwnerReferences, pods[0].Spec.RuntimeClassName = owner, nil
			pods[1].OwnerReferences, pods[1].Spec.RuntimeClassName = owner, &rc
		}
		pods[1].Spec.HostNetwork = true
		if marker {
			if pods[1].Annotations == nil {
				pods[1].Annotations = map[string]string{}
			}
			for _, lv := range s.LVs {
				pods[1].Annotations["m/"+lv.String()] = "rollout-violation"
			}
		}
		for _, p := range pods[2:] {
			p.OwnerReferences = nil
		}
		s.World.Pods = pods
		s.Tags = append(s.Tags, "listed:rollout-pattern")
	}
	s.World.ListErr = r.Intn(100) < 8
	s.World.ErrKind = r.Intn(8)
	if n > 0 && r.Intn(100) < 30 {
		k := r.Intn(n + 1)
		s.World.ExpireAfter = &k
	}
	if r.Intn(100) < 40 {
		d := []time.Duration{10 * time.Second, 3 * time.Second, time.Second, 500 * time.Millisecond, 30 * time.Second}[r.Intn(5)]
		s.Req.DeadlineIn = &d
	}
	s.Tags = append(s.Tags, "req:namespace", "op:"+s.Req.Op, "object:"+kind, fmt.Sprintf("listed:%d", n))
	s.Req.Wire = r.Intn(2) == 0
	return s
}

// barePodScenario: the same template as a pod CREATE under the same audit/warn policy with enforce := privileged.
func barePodScenario(s *scenario) (adm.ReqSpec, adm.WorldSpec, bool) {
	var tmpl *corev1.Pod
	switch s.Req.Object.Kind {
	case "controller":
		if !s.Req.Object.HasTemplate {
			return adm.ReqSpec{}, adm.WorldSpec{}, false
		}
		tmpl = s.Req.Object.Pod
	case "pod":
		tmpl = s.Req.Object.Pod
	default:
		return adm.ReqSpec{}, adm.WorldSpec{}, false
	}
	if s.World.NSErr || s.Req.Subresource != "" {
		return adm.ReqSpec{}, adm.WorldSpec{}, false
	}
	pol, errs := api.PolicyToEvaluate(s.World.NSLabels, s.Cfg.Defaults)
	if len(errs) > 0 {
		return adm.ReqSpec{}, adm.WorldSpec{}, false
	}
	ls := map[string]string{api.EnforceLevelLabel: "privileged", api.AuditLevelLabel: string(pol.Audit.Level), api.AuditVersionLabel: pol.Audit.Version.String(),
		api.WarnLevelLabel: string(pol.Warn.Level), api.WarnVersionLabel: pol.Warn.Version.String()}
	req := adm.ReqSpec{Group: "", Resource: "pods", Namespace: s.Req.Namespace, Name: "bare", User: s.Req.User, Op: "CREATE", Object: adm.ObjSpec{Kind: "pod", Pod: tmpl}, Old: adm.ObjSpec{Kind: "nil"}}
	return req, adm.WorldSpec{NSLabels: ls}, true
}

func innerEvaluator(marker bool) policy.Evaluator {
	if marker {
		return adm.MarkerEvaluator{}
	}
	ev, err := policy.NewEvaluator(policy.DefaultChecks())
	if err != nil {
		panic(err)
	}
	return ev
}

func scenarioPods(s *scenario) []*corev1.Pod {
	var out []*corev1.Pod
	seen := map[string]bool{}
	add := func(p *corev1.Pod) {
		if p != nil && !seen[p.Name] {
			seen[p.Name] = true
			out = append(out, p)
		}
	}
	for _, o := range []*adm.ObjSpec{&s.Req.Object, &s.Req.Old} {
		if o.Kind == "pod" || (o.Kind == "controller" && o.HasTemplate) {
			add(o.Pod)
		}
	}
	for _, p := range s.World.Pods {
		add(p)
	}
	return out
}

func optObs(in *cq.Interner, o *adm.Obs) string {
	if o == nil || o.Resp == nil {
		return "None"
	}
	return cq.App("Some", adm.ObsTerm(in, o))
}

// admCase runs a scenario (and its related requests) and renders the case.
func admCase(in *cq.Interner, s *scenario, real, marker policy.Evaluator) (cq.Case, []cq.GoFail) {
	inner := real
	if s.Marker {
		inner = marker
	}
	var fails []cq.GoFail
	sample := map[string]interface{}{"cfg": s.Cfg, "cfg_strings": cfgStrings(&s.Cfg), "marker_evaluator": s.Marker, "request": s.Req, "world": s.World}
	obs := adm.Run(&s.Cfg, inner, &s.Req, &s.World)
	if obs.Panic != "" || obs.Resp == nil {
		sample["panic"] = obs.Panic
		sample["signature"] = "adm/panic/" + s.Req.Resource + "/" + s.Req.Object.Kind
		return cq.Case{}, []cq.GoFail{{What: "Admission.Validate panicked or hung: " + obs.Panic, Replay: sample}}
	}
	if msg := adm.DeadlineCheck(&s.Cfg, &s.Req, &obs); msg != "" {
		fails = append(fails, cq.GoFail{What: msg, Replay: sample})
	}
	// related requests
	var noex, bare, create, nosub *adm.Obs
	if s.Req.Resource != "namespaces" {
		c0 := s.Cfg
		c0.ExNS, c0.ExUsers, c0.ExRCs = nil, nil, nil
		o := adm.Run(&c0, inner, &s.Req, &s.World)
		if o.Panic == "" {
			noex = &o
		}
	}
	if s.Req.Resource != "namespaces" && s.Req.Resource != "pods" {
		if req, w, ok := barePodScenario(s); ok {
			o := adm.Run(&s.Cfg, inner, &req, &w)
			if o.Panic == "" {
				bare = &o
			}
		}
	}
	if s.Req.Resource == "pods" {
		if s.Req.Op == "UPDATE" {
			r2 := s.Req
			r2.Op = "CREATE"
			o := adm.Run(&s.Cfg, inner, &r2, &s.World)
			if o.Panic == "" {
				create = &o
			}
		}
		if s.Req.Subresource != "" {
			r2 := s.Req
			r2.Subresource = ""
			o := adm.Run(&s.Cfg, inner, &r2, &s.World)
			if o.Panic == "" {
				nosub = &o
			}
		}
	}
	// direct evaluator answers
	var evals []string
	for _, p := range scenarioPods(s) {
		for _, lv := range s.LVs {
			rs := inner.EvaluatePod(lv, &p.ObjectMeta, &p.Spec)
			var bad []string
			for i, x := range rs {
				if t := crTerm(in, x); t != "cr_ok" {
					bad = append(bad, cq.App("bda", fmt.Sprint(i), t))
				}
			}
			lt, _ := enc.LV(lv)
			evals = append(evals, cq.App("eve", lt, in.S(p.Name), fmt.Sprint(len(rs)), cq.List(bad)))
		}
	}
	term := cq.App("AdmCase", adm.CfgTerm(in, &s.Cfg), cq.Bool(s.Marker), adm.ReqTerm(in, &s.Req), adm.WorldTerm(in, &s.World), cq.List(evals),
		adm.ObsTerm(in, &obs), optObs(in, noex), optObs(in, bare), optObs(in, create), optObs(in, nosub))
	if s.Req.Resource == "namespaces" {
		if sig := controlSetSignature(s, inner); sig != "" {
			sample["signature"] = sig
		}
	}
	sample["observed"] = map[string]interface{}{"response": obs.Resp, "shared": obs.Shared, "trace": traceStrings(obs.Trace)}
	tags := append([]string{}, s.Tags...)
	tags = append(tags, fmt.Sprintf("allowed:%v", obs.Resp.Allowed), "shared:"+obs.Shared, fmt.Sprintf("marker:%v", s.Marker))
	nEval := 0
	for _, e := range obs.Trace {
		if e.Kind == "eval" {
			nEval++
		}
	}
	tags = append(tags, fmt.Sprintf("evaluated:%v", nEval > 0))
	if _, ok := obs.Resp.AuditAnnotations["exempt"]; ok {
		tags = append(tags, "exempt:"+obs.Resp.AuditAnnotations["exempt"])
	}
	if _, ok := obs.Resp.AuditAnnotations["error"]; ok {
		tags = append(tags, "error-annotation")
	}
	if len(obs.Resp.Warnings) > 0 {
		tags = append(tags, "warnings")
	}
	key := fmt.Sprintf("%v|%+v|%+v|%+v", s.Marker, s.Cfg, s.Req, s.World)
	return cq.Case{Term: term, Key: key, Nontrivial: len(obs.Trace) > 0, Tags: tags, Sample: sample, Uses: in.TakeUses()}, fails
}

func traceStrings(tr []adm.Event) []string {
	var out []string
	for _, e := range tr {
		switch e.Kind {
		case "eval":
			out = append(out, fmt.Sprintf("eval(%s,%s)", e.LV.String(), e.Pod))
		case "meval":
			out = append(out, fmt.Sprintf("metric.eval(deny=%v,%s,%s)", e.Deny, e.LV.String(), e.Mode))
		case "merror":
			out = append(out, fmt.Sprintf("metric.error(fatal=%v)", e.Fatal))
		default:
			out = append(out, e.Kind)
		}
	}
	return out
}

func normReason(r string) string {
	if r == "forbidden AppArmor profiles" {
		return "forbidden AppArmor profile"
	}
	return r
}

// controlSetSignature: if the listed pods contain two pods that violate the same
// set of controls (reasons equal up to the AppArmor plural) at some candidate
// policy but with different reason texts, name the cause.
func controlSetSignature(s *scenario, inner policy.Evaluator) string {
	for _, lv := range s.LVs {
		groups := map[string]map[string]bool{}
		for _, p := range s.World.Pods {
			agg := policy.AggregateCheckResults(inner.EvaluatePod(lv, &p.ObjectMeta, &p.Spec))
			if agg.Allowed {
				continue
			}
			var norm []string
			for _, r := range agg.ForbiddenReasons {
				norm = append(norm, normReason(r))
			}
			k := fmt.Sprint(norm)
			if groups[k] == nil {
				groups[k] = map[string]bool{}
			}
			groups[k][agg.ForbiddenReason()] = true
		}
		for _, texts := range groups {
			if len(texts) > 1 {
				return "C11/reason-text-splits-same-control-set/appArmorProfile"
			}
		}
	}
	return ""
}

// f3Witness: the deterministic witness of finding F3 (two pods violating exactly
// {appArmorProfile}, one with one offending value, one with two).
func f3Witness() scenario {
	lat := api.LevelVersion{Level: api.LevelPrivileged, Version: api.LatestVersion()}
	mk := func(name string, anns map[string]string) *corev1.Pod {
		p := &corev1.Pod{}
		p.Name = name
		p.Annotations = anns
		p.Spec.Containers = []corev1.Container{{Name: "c", Image: "i"}}
		return p
	}
	s := scenario{Cfg: adm.CfgSpec{Defaults: api.Policy{Enforce: lat, Audit: lat, Warn: lat}}}
	s.Req = adm.ReqSpec{Group: "", Resource: "namespaces", Namespace: "ns", Name: "ns", User: "u", Op: "UPDATE",
		Object: adm.ObjSpec{Kind: "namespace", NSName: "ns", Labels: map[string]string{api.EnforceLevelLabel: "baseline"}},
		Old:    adm.ObjSpec{Kind: "namespace", NSName: "ns", Labels: map[string]string{}}}
	s.World.Pods = []*corev1.Pod{
		mk("a", map[string]string{podgen.AppArmorPrefix + "c": "unconfined"}),
		mk("b", map[string]string{podgen.AppArmorPrefix + "c": "unconfined", podgen.AppArmorPrefix + "d": "bad"})}
	s.LVs = candidateLVs([]map[string]string{s.Req.Object.Labels}, s.Cfg.Defaults)
	s.Tags = []string{"req:namespace", "witness:F3"}
	return s
}

// Adm builds the admission stream. mix selects the request classes: any of "pod", "controller", "namespace".
func Adm(stream string, seed int64, n int, pf string, mix []string) (*cq.Set, *cq.Interner) {
	r := rand.New(rand.NewSource(seed))
	in := cq.NewInterner()
	set := &cq.Set{Stream: stream, Seed: seed, Imports: "Model.Api Model.Pod Model.Checks Model.Admission Model.Wire Corr.Adm", CaseTy: "adm_case", RunFn: "run_adm " + pf,
		Rule: "admission requests drawn from the decision table of Validate: resource class x subresource (none / the 8 ignored / others) x operation x exemption hits and near-misses per dimension (empty, prefix, case change, value from another list) x dependency answers (lookup ok/err, object and old object ok/err/nil/wrong type, list ok/err, expiry index) x namespace label maps (valid, malformed) x defaults x pods on each side of each level; evaluator = real registry or marker evaluator (50/50); each case also runs the related requests (exemptions cleared, bare pod of the template, as CREATE, without subresource) and records the evaluator's direct answers; distinct by (config, request, world); non-trivial = at least one dependency call, evaluation or metric event"}
	webProbes := 0
	exemptHeavy = pf == "pf06" || pf == "pf07" || pf == "pf18" || pf == "pf_all"
	real, marker := innerEvaluator(false), innerEvaluator(true)
	if pf == "pf11cs" {
		s := f3Witness()
		c, fails := admCase(in, &s, real, marker)
		set.GoFails = append(set.GoFails, fails...)
		if c.Term != "" {
			set.Cases = append(set.Cases, c)
		}
	}
	if pf == "pf13" || pf == "pf01" {
		// many offending containers with long names under restricted enforce / audit / warn: the denial, the
		// warning and the annotation must each still list every violated control in full
		for _, mode := range []string{"enforce", "audit"} {
			s := podScenario(r, false)
			p := s.Req.Object.Pod
			if p == nil {
				p = classPod(r, "the-pod")
			}
			p.Spec = corev1.PodSpec{}
			p.Annotations = nil
			for k := 0; k < 40; k++ {
				p.Spec.Containers = append(p.Spec.Containers, corev1.Container{Name: fmt.Sprintf("container-with-a-rather-long-name-%02d", k), Image: "img"})
			}
			s.Req = adm.ReqSpec{Group: "", Resource: "pods", Namespace: "ns", Name: "the-pod", User: "alice", Op: "CREATE", Object: adm.ObjSpec{Kind: "pod", Pod: p}, Old: adm.ObjSpec{Kind: "nil"}, Wire: mode == "audit"}
			s.World = adm.WorldSpec{NSLabels: map[string]string{"pod-security.kubernetes.io/" + mode: "restricted", "pod-security.kubernetes.io/" + mode + "-version": "latest",
				"pod-security.kubernetes.io/warn": "restricted", "pod-security.kubernetes.io/warn-version": "v1.25"}}
			s.Cfg.ExNS, s.Cfg.ExUsers, s.Cfg.ExRCs = nil, nil, nil
			s.LVs = candidateLVs([]map[string]string{s.World.NSLabels}, s.Cfg.Defaults)
			s.Tags = []string{"req:pod", "op:CREATE", "object:pod", "long-message"}
			c, fails := admCase(in, &s, real, marker)
			set.GoFails = append(set.GoFails, fails...)
			if c.Term != "" {
				set.Cases = append(set.Cases, c)
			}
		}
	}
	if stream == "c03adm" {
		c03admTriples(set, in, r, (n+2)/3, real, marker)
		set.Rule = "the level ordering seen through Admission.Validate: one pod CREATE / UPDATE (pods drawn on each side of each level, real registry) sent under enforce = restricted, baseline and privileged at one version from " + strings.Join(c03admVersions, ",") + " (via the namespace labels or, every third triple, the configured defaults), exemptions cleared; Go-side oracle: for API-valid pods, allowed under a stricter level implies allowed under a laxer one, and (the audit mode follows the enforce mode of the triple) no audit-violations annotation at a stricter level implies none at a laxer one; every request is also compared with the admission model (P01 + model equality)"
		n = 0
	}
	for i := 0; i < n; i++ {
		var s scenario
		mk := r.Intn(2) == 0
		if pf == "pf11cs" {
			mk = r.Intn(4) == 0 // mostly the real evaluator: control sets are about the built-in controls
		}
		switch mix[r.Intn(len(mix))] {
		case "pod":
			s = podScenario(r, mk)
		case "controller":
			s = controllerScenario(r, mk)
		default:
			s = namespaceScenario(r, mk)
		}
		c, fails := admCase(in, &s, real, marker)
		set.GoFails = append(set.GoFails, fails...)
		if c.Term != "" {
			set.Cases = append(set.Cases, c)
		}
		if pf == "pf12" && s.Req.Resource == "namespaces" && s.World.ExpireAfter == nil && i%3 == 0 {
			// the same request through the webhook: the API server's ?timeout= is the request's deadline
			var d *time.Duration
			if x := []time.Duration{0, 300 * time.Millisecond, 1500 * time.Millisecond, 1900 * time.Millisecond, 4 * time.Second}[r.Intn(5)]; x > 0 {
				d = &x
			}
			inner := real
			if s.Marker {
				inner = marker
			}
			if problem, status, listed := adm.WebDeadlineProbe(&s.Cfg, inner, &s.Req, &s.World, d); problem != "" {
				set.GoFails = append(set.GoFails, cq.GoFail{What: problem, Replay: map[string]interface{}{"cfg": s.Cfg, "request": s.Req, "world": s.World, "webhook_timeout": fmt.Sprint(d), "http_status": status}})
			} else if listed {
				webProbes++
			}
		}
	}
	if pf == "pf12" {
		set.Rule += fmt.Sprintf("; %d of the namespace requests that reach the dry run were also POSTed to HandleValidate with and without ?timeout= (300ms..4s) and the deadline of the context ListPods received was checked against it", webProbes)
	}
	return set, in
}

// ---------------------------------------------------------------- replay of one recorded case (shrinking)

// ReplayCfg is CfgSpec with the level:version pairs spelled out (api.Version does not survive JSON).
type ReplayCfg struct {
	Enforce, Audit, Warn string
	ExNS, ExUsers, ExRCs []string
	MaxPods              int
	Timeout              time.Duration
}

func cfgStrings(c *adm.CfgSpec) ReplayCfg {
	return ReplayCfg{Enforce: c.Defaults.Enforce.String(), Audit: c.Defaults.Audit.String(), Warn: c.Defaults.Warn.String(),
		ExNS: c.ExNS, ExUsers: c.ExUsers, ExRCs: c.ExRCs, MaxPods: c.MaxPods, Timeout: c.Timeout}
}

func parseLV(s string) (api.LevelVersion, error) {
	i := strings.Index(s, ":")
	if i < 0 {
		return api.LevelVersion{}, fmt.Errorf("bad level:version %q", s)
	}
	l, err := api.ParseLevel(s[:i])
	if err != nil {
		return api.LevelVersion{}, err
	}
	v, err := api.ParseVersion(s[i+1:])
	if err != nil {
		return api.LevelVersion{}, err
	}
	return api.LevelVersion{Level: l, Version: v}, nil
}

// AdmReplay re-runs one recorded admission case (the failing_case object of a replay file, possibly edited)
// against the implementation and renders it as a one-case set for the relation pf.
func AdmReplay(stream string, pf string, js []byte) (*cq.Set, *cq.Interner, error) {
	var rec struct {
		Cfg     ReplayCfg     `json:"cfg_strings"`
		Marker  bool          `json:"marker_evaluator"`
		Request adm.ReqSpec   `json:"request"`
		World   adm.WorldSpec `json:"world"`
	}
	if err := json.Unmarshal(js, &rec); err != nil {
		return nil, nil, err
	}
	var s scenario
	var err error
	if s.Cfg.Defaults.Enforce, err = parseLV(rec.Cfg.Enforce); err != nil {
		return nil, nil, err
	}
	if s.Cfg.Defaults.Audit, err = parseLV(rec.Cfg.Audit); err != nil {
		return nil, nil, err
	}
	if s.Cfg.Defaults.Warn, err = parseLV(rec.Cfg.Warn); err != nil {
		return nil, nil, err
	}
	s.Cfg.ExNS, s.Cfg.ExUsers, s.Cfg.ExRCs, s.Cfg.MaxPods, s.Cfg.Timeout = rec.Cfg.ExNS, rec.Cfg.ExUsers, rec.Cfg.ExRCs, rec.Cfg.MaxPods, rec.Cfg.Timeout
	s.Marker, s.Req, s.World = rec.Marker, rec.Request, rec.World
	for _, o := range []*adm.ObjSpec{&s.Req.Object, &s.Req.Old} {
		if (o.Kind == "pod" || (o.Kind == "controller" && o.HasTemplate)) && o.Pod == nil {
			return nil, nil, fmt.Errorf("object of kind %s without a pod", o.Kind)
		}
	}
	s.LVs = candidateLVs([]map[string]string{s.World.NSLabels, s.Req.Object.Labels, s.Req.Old.Labels}, s.Cfg.Defaults)
	in := cq.NewInterner()
	set := &cq.Set{Stream: stream, Seed: 0, Imports: "Model.Api Model.Pod Model.Checks Model.Admission Model.Wire Corr.Adm", CaseTy: "adm_case", RunFn: "run_adm " + pf, Rule: "replay of one recorded case"}
	c, fails := admCase(in, &s, innerEvaluator(false), innerEvaluator(true))
	set.GoFails = append(set.GoFails, fails...)
	if c.Term != "" {
		set.Cases = append(set.Cases, c)
	}
	return set, in, nil
}
