//go:build verif

package streams

import (
	"fmt"
	"math/rand"
	"sort"
	"sync"

	admissionv1 "k8s.io/api/admission/v1"
	"k8s.io/apimachinery/pkg/runtime/schema"
	compbasemetrics "k8s.io/component-base/metrics"
	"k8s.io/pod-security-admission/api"
	"k8s.io/pod-security-admission/metrics"
	"psaverif/internal/cq"
	"psaverif/internal/enc"
)

type recCall struct {
	Reset    bool
	Op       string
	Group    string
	Resource string
	Sub      string
	Kind     string // eval | exempt | error
	Deny     bool
	LV       api.LevelVersion
	Mode     string
	Fatal    bool
}

func (c recCall) attrs() api.Attributes {
	return &api.AttributesRecord{Operation: admissionv1.Operation(c.Op), Resource: schema.GroupVersionResource{Group: c.Group, Version: "v1", Resource: c.Resource}, Subresource: c.Sub}
}

func (c recCall) apply(r *metrics.PrometheusRecorder) {
	switch {
	case c.Reset:
		r.Reset()
	case c.Kind == "eval":
		d := metrics.Decision(metrics.DecisionAllow)
		if c.Deny {
			d = metrics.DecisionDeny
		}
		r.RecordEvaluation(d, c.LV, metrics.Mode(c.Mode), c.attrs())
	case c.Kind == "exempt":
		r.RecordExemption(c.attrs())
	default:
		r.RecordError(c.Fatal, c.attrs())
	}
}

func randCall(r *rand.Rand) recCall {
	if r.Intn(100) < 4 {
		return recCall{Reset: true}
	}
	c := recCall{Op: pick(r, []string{"CREATE", "UPDATE", "UPDATE", "CREATE", "DELETE", "CONNECT", "Patch"}), Sub: pick(r, []string{"", "", "", "ephemeralcontainers", "status"})}
	switch r.Intn(3) {
	case 0:
		c.Group, c.Resource = "", "pods"
	case 1:
		c.Group, c.Resource = "apps", pick(r, []string{"deployments", "daemonsets"})
	default:
		c.Group, c.Resource = pick(r, []string{"", "apps"}), pick(r, []string{"namespaces", "pods"})
	}
	switch x := r.Intn(100); {
	case x < 65:
		c.Kind = "eval"
		c.Deny = r.Intn(3) == 0
		c.Mode = pick(r, []string{"enforce", "enforce", "audit", "warn"})
		// adversarial version labels: far beyond the server version
		minors := []int{0, 1, 5, 29, 30, 31, 32, 100, 500, 1 << 40}
		v := api.LatestVersion()
		if r.Intn(4) != 0 {
			m := minors[r.Intn(len(minors))]
			if r.Intn(3) == 0 {
				m = r.Intn(600)
			}
			v = api.MajorMinorVersion(1, m)
		}
		c.LV = api.LevelVersion{Level: api.Level(pick(r, LevelNames)), Version: v}
	case x < 82:
		c.Kind = "exempt"
	default:
		c.Kind = "error"
		c.Fatal = r.Intn(2) == 0
	}
	return c
}

func callTerm(in *cq.Interner, c recCall) string {
	if c.Reset {
		return "CallReset"
	}
	op := "OpCreate"
	switch c.Op {
	case "CREATE":
	case "UPDATE":
		op = "OpUpdate"
	default:
		op = cq.App("OpOther", in.S(c.Op))
	}
	var ev string
	switch c.Kind {
	case "eval":
		lv, _ := enc.LV(c.LV)
		mode := map[string]string{"enforce": "ModeEnforce", "audit": "ModeAudit", "warn": "ModeWarn"}[c.Mode]
		ev = cq.App("MEval", cq.Bool(c.Deny), lv, mode)
	case "exempt":
		ev = "MExempt"
	default:
		ev = cq.App("MError", cq.Bool(c.Fatal))
	}
	return cq.App("CallEvent", op, in.S(c.Group), in.S(c.Resource), in.S(c.Sub), ev)
}

var labelOrder = map[string][]string{
	"pod_security_evaluations_total": {"decision", "policy_level", "policy_version", "mode", "request_operation", "resource", "subresource"},
	"pod_security_exemptions_total":  {"request_operation", "resource", "subresource"},
	"pod_security_errors_total":      {"fatal", "request_operation", "resource", "subresource"},
}

type gatheredSeries struct {
	Name   string
	Labels []string
	Value  uint64
}

func gather(reg compbasemetrics.KubeRegistry) ([]gatheredSeries, error) {
	mfs, err := reg.Gather()
	if err != nil {
		return nil, err
	}
	var out []gatheredSeries
	for _, mf := range mfs {
		order, ok := labelOrder[mf.GetName()]
		if !ok {
			continue
		}
		for _, m := range mf.GetMetric() {
			vals := map[string]string{}
			for _, lp := range m.GetLabel() {
				vals[lp.GetName()] = lp.GetValue()
			}
			var ls []string
			for _, n := range order {
				ls = append(ls, vals[n])
			}
			v := uint64(m.GetCounter().GetValue())
			if float64(v) != m.GetCounter().GetValue() {
				return nil, fmt.Errorf("non-integral counter %v", m.GetCounter().GetValue())
			}
			if v != 0 {
				out = append(out, gatheredSeries{mf.GetName(), ls, v})
			}
		}
	}
	sort.Slice(out, func(i, j int) bool { return fmt.Sprint(out[i]) < fmt.Sprint(out[j]) })
	return out, nil
}

const serverMinor = 30

func newRecorder() (*metrics.PrometheusRecorder, compbasemetrics.KubeRegistry) {
	rec := metrics.NewPrometheusRecorder(api.MajorMinorVersion(1, serverMinor))
	reg := compbasemetrics.NewKubeRegistry()
	rec.MustRegister(reg.MustRegister)
	return rec, reg
}

// C18 builds recorder histories, plus a concurrent exact-totals oracle.
func C18(seed int64, n int) (*cq.Set, *cq.Interner) {
	r := rand.New(rand.NewSource(seed))
	in := cq.NewInterner()
	set := &cq.Set{Stream: "c18", Seed: seed, Imports: "Model.Api Model.Admission Model.Metrics Corr.C18", CaseTy: "c18_case", RunFn: "run_c18",
		Rule: "histories of 1-60 recordings (evaluation / exemption / error with random attributes; version labels from latest, v1.0 .. v1.(2^40), far beyond the server's v1.30) with occasional resets through a real PrometheusRecorder registered in a fresh registry, then gathered; cached (pre-populated) and uncached label combinations both occur; plus a concurrent run of 16 goroutines x 4000 recordings with exact totals; distinct by history; non-trivial = at least two recordings"}
	for i := 0; i < n; i++ {
		rec, reg := newRecorder()
		serverMajor, serverMin := 1, serverMinor
		if i%8 == 7 {
			// the recorder exactly as cmd/webhook/server builds it: bounded by api.GetAPIVersion()
			sv := api.GetAPIVersion()
			if sv.Latest() {
				set.GoFails = append(set.GoFails, cq.GoFail{What: "api.GetAPIVersion() returned 'latest': the webhook's recorder would emit every pinned policy version verbatim (unbounded policy_version series)", Replay: map[string]interface{}{"server_version": sv.String()}})
				continue
			}
			serverMajor, serverMin = sv.Major(), sv.Minor()
			rec = metrics.NewPrometheusRecorder(sv)
			reg = compbasemetrics.NewKubeRegistry()
			rec.MustRegister(reg.MustRegister)
		}
		k := 1 + r.Intn(60)
		var calls []recCall
		var terms []string
		for j := 0; j < k; j++ {
			c := randCall(r)
			if j < 3 && r.Intn(2) == 0 { // the pre-populated fast-path series
				c = recCall{Op: pick(r, []string{"CREATE", "UPDATE"}), Group: "", Resource: "pods", Kind: "eval", Mode: "enforce", LV: api.LevelVersion{Level: api.LevelPrivileged, Version: api.LatestVersion()}}
			}
			calls = append(calls, c)
			c.apply(rec)
			terms = append(terms, callTerm(in, c))
		}
		gs, err := gather(reg)
		if err != nil {
			set.GoFails = append(set.GoFails, cq.GoFail{What: "gather failed: " + err.Error(), Replay: map[string]interface{}{"calls": calls}})
			continue
		}
		var gt []string
		for _, g := range gs {
			gt = append(gt, cq.Pair(cq.Pair(in.S(g.Name), in.StrList(g.Labels)), cq.N(g.Value)))
		}
		term := cq.App("C18Case", cq.N(uint64(serverMajor)), cq.N(uint64(serverMin)), cq.List(terms), cq.List(gt))
		set.Cases = append(set.Cases, cq.Case{Term: term, Key: fmt.Sprintf("%+v", calls), Nontrivial: k >= 2, Tags: []string{fmt.Sprintf("len:%d", k/10*10)},
			Sample: map[string]interface{}{"calls": calls, "gathered": gs}, Uses: in.TakeUses()})
	}
	// concurrent exact totals
	rec, reg := newRecorder()
	const G, M = 16, 1000
	pool := make([]recCall, 0, 40)
	for len(pool) < 40 {
		if c := randCall(r); !c.Reset {
			pool = append(pool, c)
		}
	}
	pool[0] = recCall{Op: "CREATE", Group: "", Resource: "pods", Kind: "eval", Mode: "enforce", LV: api.LevelVersion{Level: api.LevelPrivileged, Version: api.LatestVersion()}}
	pool[1] = recCall{Op: "UPDATE", Group: "", Resource: "pods", Kind: "exempt"}
	// two different pinned versions recorded side by side (a memoised label would cross over)
	pool[2] = recCall{Op: "CREATE", Group: "", Resource: "pods", Kind: "eval", Mode: "enforce", LV: api.LevelVersion{Level: api.LevelBaseline, Version: api.MajorMinorVersion(1, 21)}}
	pool[3] = recCall{Op: "CREATE", Group: "", Resource: "pods", Kind: "eval", Mode: "enforce", LV: api.LevelVersion{Level: api.LevelBaseline, Version: api.MajorMinorVersion(1, 22)}}
	counts := make([]int, len(pool))
	var wg sync.WaitGroup
	for g := 0; g < G; g++ {
		seq := make([]int, M)
		for i := range seq {
			seq[i] = r.Intn(len(pool))
			if i%2 == 0 {
				seq[i] = 2 + (g+i/2)%2 // half of the traffic alternates between the two pinned versions
			}
		}
		for _, i := range seq {
			counts[i]++
		}
		wg.Add(1)
		go func(seq []int) {
			defer wg.Done()
			for _, i := range seq {
				pool[i].apply(rec)
			}
		}(seq)
	}
	wg.Wait()
	gs, err := gather(reg)
	total := uint64(0)
	for _, g := range gs {
		total += g.Value
	}
	if err != nil || total != G*M {
		set.GoFails = append(set.GoFails, cq.GoFail{What: fmt.Sprintf("concurrent recording lost or duplicated updates: %d recordings, counters sum to %d (err=%v)", G*M, total, err), Replay: map[string]interface{}{"goroutines": G, "per_goroutine": M}})
	}
	if err == nil {
		// the concurrent run as one case: its multiset of calls and the gathered series
		var terms []string
		for i, c := range pool {
			if counts[i] > 0 {
				terms = append(terms, cq.App("rc", fmt.Sprint(counts[i]), callTerm(in, c)))
			}
		}
		var gt []string
		for _, g := range gs {
			gt = append(gt, cq.Pair(cq.Pair(in.S(g.Name), in.StrList(g.Labels)), cq.N(g.Value)))
		}
		term := cq.App("C18Case", cq.N(1), cq.N(serverMinor), cq.App("repeat_calls", cq.List(terms)), cq.List(gt))
		set.Cases = append(set.Cases, cq.Case{Term: term, Key: "concurrent", Nontrivial: true, Tags: []string{"concurrent"},
			Sample: map[string]interface{}{"concurrent": true, "goroutines": G, "per_goroutine": M, "gathered": gs}, Uses: in.TakeUses()})
	}
	set.Extra = map[string]interface{}{"concurrent_recordings": G * M, "concurrent_total_observed": total}
	return set, in
}
