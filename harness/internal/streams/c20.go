//go:build verif

package streams

import (
	"bytes"
	"encoding/json"
	"fmt"
	"sort"

	corev1 "k8s.io/api/core/v1"
	"k8s.io/pod-security-admission/api"
	"k8s.io/pod-security-admission/policy"
	"k8s.io/pod-security-admission/test"
	"psaverif/internal/cq"
	"psaverif/internal/enc"
	"psaverif/internal/gen"
)

// applyDefaulting: the API-server defaulting that matters to verdicts
// (SetDefaults_Volume: a volume without any source becomes an emptyDir).
func applyDefaulting(p *corev1.Pod) *corev1.Pod {
	p = p.DeepCopy()
	for i := range p.Spec.Volumes {
		tmp := &corev1.Pod{Spec: corev1.PodSpec{Volumes: []corev1.Volume{p.Spec.Volumes[i]}}}
		a := enc.Alpha(&tmp.ObjectMeta, &tmp.Spec)
		if len(a.Volumes[0].Sources) == 0 {
			p.Spec.Volumes[i].EmptyDir = &corev1.EmptyDirVolumeSource{}
		}
	}
	return p
}

// activeChecks: for each registered check, the revision with the greatest
// MinimumVersion not newer than v (what the fixture's "control in force" means),
// restricted to the level; overridden baseline ids are dropped at restricted.
func activeChecks(level api.Level, v api.Version) []struct {
	ID        string
	Overrides []string
	Check     policy.CheckPodFn
} {
	type ac = struct {
		ID        string
		Overrides []string
		Check     policy.CheckPodFn
	}
	var base, restr []ac
	overridden := map[string]bool{}
	for _, c := range policy.DefaultChecks() {
		var cur *policy.VersionedCheck
		for i := range c.Versions {
			if !v.Older(c.Versions[i].MinimumVersion) {
				cur = &c.Versions[i]
			}
		}
		if cur == nil {
			continue
		}
		var ov []string
		for _, o := range cur.OverrideCheckIDs {
			ov = append(ov, string(o))
		}
		e := ac{ID: string(c.ID), Overrides: ov, Check: cur.CheckPod}
		if c.Level == api.LevelRestricted {
			restr = append(restr, e)
			for _, o := range ov {
				overridden[o] = true
			}
		} else {
			base = append(base, e)
		}
	}
	sort.Slice(base, func(i, j int) bool { return base[i].ID < base[j].ID })
	sort.Slice(restr, func(i, j int) bool { return restr[i].ID < restr[j].ID })
	if level == api.LevelBaseline {
		return base
	}
	var out []ac
	for _, b := range base {
		if !overridden[b.ID] {
			out = append(out, b)
		}
	}
	return append(out, restr...)
}

// C20 evaluates every serialized fixture with the real checks and evaluator.
func C20(seed int64, n int) (*cq.Set, *cq.Interner) {
	in := cq.NewInterner()
	set := &cq.Set{Stream: "c20", Seed: seed, Imports: "Model.Api Model.Pod Model.Checks Corr.C20", CaseTy: "c20_case", RunFn: "run_c20",
		Rule: "every file under test/testdata (exhaustive), decoded strictly, API-server volume defaulting applied, evaluated by the real evaluator at the fixture's level and version and by each control in force there; distinct by (level, version, file); non-trivial = fail fixtures and pass fixtures other than base pods"}
	// the fixtures describe the evaluator with the user-namespace relaxation off; a process in which the
	// switch was turned on and off again is in that state too
	policy.RelaxPolicyForUserNamespacePods(true)
	policy.RelaxPolicyForUserNamespacePods(false)
	// the in-memory generators must describe the same pods whatever a caller did with earlier results:
	// fetch everything, scribble on the pods the three exported getters hand out, fetch again
	if before, err := gen.LoadGenerated(); err == nil {
		snap, _ := json.Marshal(before)
		for _, lvl := range []api.Level{api.LevelBaseline, api.LevelRestricted} {
			for minor := 0; minor <= 40; minor++ {
				for _, get := range []func(api.Level, api.Version) (*corev1.Pod, error){test.GetMinimalValidPod, test.GetMinimalValidLinuxPod, test.GetMinimalValidWindowsPod} {
					if p, err := get(lvl, api.MajorMinorVersion(1, minor)); err == nil && p != nil {
						p.Name = "scribbled"
						p.Spec.HostNetwork = true
						p.Spec.Containers = nil
						p.Spec.SecurityContext = nil
					}
				}
			}
		}
		if after, err := gen.LoadGenerated(); err == nil {
			if snap2, _ := json.Marshal(after); !bytes.Equal(snap, snap2) {
				set.GoFails = append(set.GoFails, cq.GoFail{What: "the fixture generators hand out shared pods: after a caller modified the pods returned by GetMinimalValid*Pod the generated fixtures changed", Replay: map[string]interface{}{"fixtures_before": len(before), "fixtures_after": len(after)}})
			}
		}
	}
	fs, err := gen.LoadSerialized("/repo/test/testdata")
	if err != nil {
		set.GoFails = append(set.GoFails, cq.GoFail{What: "cannot load fixtures: " + err.Error(), Replay: map[string]interface{}{}})
		return set, in
	}
	ev, err := policy.NewEvaluator(policy.DefaultChecks())
	if err != nil {
		set.GoFails = append(set.GoFails, cq.GoFail{What: "NewEvaluator: " + err.Error(), Replay: map[string]interface{}{}})
		return set, in
	}
	for _, f := range fs {
		pod := applyDefaulting(f.Pod)
		lvl := api.Level(f.Level)
		v := api.MajorMinorVersion(1, f.Minor)
		var ran []string
		var denied []string
		for _, c := range activeChecks(lvl, v) {
			res := safeCheck(c.Check, pod)
			ran = append(ran, cq.App("rn", in.S(c.ID), in.StrList(c.Overrides), cq.Bool(res.Allowed)))
			if !res.Allowed {
				denied = append(denied, c.ID)
			}
		}
		agg := policy.AggregateCheckResults(ev.EvaluatePod(api.LevelVersion{Level: lvl, Version: v}, &pod.ObjectMeta, &pod.Spec))
		a := enc.Alpha(&pod.ObjectMeta, &pod.Spec)
		lt, _ := enc.Level(lvl)
		term := cq.App("C20Case", lt, cq.N(uint64(f.Minor)), cq.Bool(f.Pass), in.S(gen.CheckName(f.Name)), enc.PodTerm(in, a), cq.List(ran), cq.Bool(agg.Allowed))
		pf := "fail"
		if f.Pass {
			pf = "pass"
		}
		set.Cases = append(set.Cases, cq.Case{Term: term, Key: fmt.Sprintf("%s/v1.%d/%s/%s", f.Level, f.Minor, pf, f.Name),
			Nontrivial: !f.Pass || gen.CheckName(f.Name) != "base", Tags: []string{"level:" + f.Level, pf, "check:" + gen.CheckName(f.Name)},
			Sample: map[string]interface{}{"file": fmt.Sprintf("test/testdata/%s/v1.%d/%s/%s.yaml", f.Level, f.Minor, pf, f.Name), "denied_by": denied, "allowed": agg.Allowed}, Uses: in.TakeUses()})
	}
	set.Extra = map[string]interface{}{"exhaustive": true, "files": len(fs)}
	return set, in
}
