//go:build verif

package streams

import (
	"fmt"
	"math/rand"
	"sort"
	"strings"

	"k8s.io/apimachinery/pkg/util/validation/field"
	"k8s.io/pod-security-admission/api"
	"psaverif/internal/adm"
	"psaverif/internal/cq"
	"psaverif/internal/enc"
)

var LevelNames = []string{"privileged", "baseline", "restricted"}

// VersionPool: valid and malformed version strings (classes named in DESIGN 5).
var ValidVersions = []string{"latest", "v1.0", "v1.1", "v1.5", "v1.19", "v1.24", "v1.25", "v1.31", "v1.32", "v1.33", "v1.100", "v1.9223372036854775807"}
var BadVersions = []string{"", "v1.05", "v1.00", "v2.0", "v0.5", "v1.", "v1", "1.5", "latest ", " latest", "LATEST", "Latest", "v1.9223372036854775808",
	"v1.99999999999999999999", "v1.5\n", "v1.-1", "v1.+1", "v1.5a", "V1.5", "v1.5.0", "v1,5", "v1.٣", "v11.5", "v1.5 ", "\nv1.5", "v1.0x10", "v1.1e1", "v1.１"}
var BadLevels = []string{"", "Baseline", "RESTRICTED", "restricted ", " restricted", "restricted\n", "privilege", "privilegedd", "base", "baseline,restricted", "latest", "v1.5", "none", "Privileged", "restricted\x00"}

var labelKeys = []string{api.EnforceLevelLabel, api.EnforceVersionLabel, api.AuditLevelLabel, api.AuditVersionLabel, api.WarnLevelLabel, api.WarnVersionLabel}
var unrelatedLabels = [][2]string{{"app", "web"}, {"pod-security.kubernetes.io/enforce ", "restricted"}, {"pod-security.kubernetes.io/Enforce", "restricted"},
	{"pod-security.kubernetes.io/exempt", "true"}, {"pod-security.kubernetes.io/enforce-versions", "v1.0"}, {"pod-security.kubernetes.io/", "restricted"},
	{"kubernetes.io/metadata.name", "ns"}, {"pod-security.kubernetes.io/warn-level", "restricted"}}

func isLevelKey(k string) bool { return !strings.HasSuffix(k, "-version") }

func pick(r *rand.Rand, l []string) string { return l[r.Intn(len(l))] }

// RandLabelValue draws a value for the given label key: mostly valid.
func RandLabelValue(r *rand.Rand, key string) string {
	x := r.Intn(100)
	if isLevelKey(key) {
		switch {
		case x < 70:
			return pick(r, LevelNames)
		case x < 90:
			return pick(r, BadLevels)
		default:
			return pick(r, ValidVersions)
		}
	}
	switch {
	case x < 70:
		return pick(r, ValidVersions)
	case x < 90:
		return pick(r, BadVersions)
	default:
		return pick(r, LevelNames)
	}
}

func RandLabels(r *rand.Rand) map[string]string {
	m := map[string]string{}
	for _, k := range labelKeys {
		if r.Intn(100) < 45 {
			m[k] = RandLabelValue(r, k)
		}
	}
	for r.Intn(100) < 25 {
		u := unrelatedLabels[r.Intn(len(unrelatedLabels))]
		m[u[0]] = u[1]
	}
	return m
}

func mustVersion(s string) api.Version {
	v, err := api.ParseVersion(s)
	if err != nil {
		panic(err)
	}
	return v
}

var defaultVersions = []string{"latest", "v1.0", "v1.7", "v1.24", "v1.40"}

func RandDefaults(r *rand.Rand) api.Policy {
	lv := func() api.LevelVersion {
		return api.LevelVersion{Level: api.Level(pick(r, LevelNames)), Version: mustVersion(pick(r, defaultVersions))}
	}
	return api.Policy{Enforce: lv(), Audit: lv(), Warn: lv()}
}

func labelsKey(m map[string]string) string {
	keys := make([]string, 0, len(m))
	for k := range m {
		keys = append(keys, k)
	}
	sort.Strings(keys)
	var b strings.Builder
	for _, k := range keys {
		fmt.Fprintf(&b, "%q=%q;", k, m[k])
	}
	return b.String()
}

// resolveViaAdmission resolves labels through (*Admission).PolicyToEvaluate, the path the
// admission controller itself uses, with d as the configured defaults.
func resolveViaAdmission(ls map[string]string, d api.Policy) (api.Policy, field.ErrorList, bool) {
	cfg := adm.CfgSpec{Defaults: d}
	a, err := adm.NewAdmission(&cfg, adm.MarkerEvaluator{}, adm.NullMetrics{}, nil, nil)
	if err != nil {
		return api.Policy{}, nil, false
	}
	p, errs := a.PolicyToEvaluate(ls)
	return p, errs, true
}

var polCaseCounter int

func polCase(in *cq.Interner, ls map[string]string, d api.Policy) cq.Case {
	var lsArg map[string]string = ls
	p, errs := api.PolicyToEvaluate(lsArg, d)
	polCaseCounter++
	via := "api.PolicyToEvaluate"
	if polCaseCounter%2 == 0 {
		if p2, e2, ok := resolveViaAdmission(lsArg, d); ok {
			p, errs, via = p2, e2, "Admission.PolicyToEvaluate"
		}
	}
	dTerm, _ := enc.Policy(d)
	key := "pol|" + labelsKey(ls) + "|" + d.String()
	sample := map[string]interface{}{"kind": via, "labels": ls, "defaults": d.String(), "observed_policy": p.String(), "observed_errs": fmt.Sprint(errs)}
	tags := []string{"kind:policy", "via:" + via, fmt.Sprintf("labels:%d", len(ls)), fmt.Sprintf("errs:%d", len(errs))}
	pTerm, ok1 := enc.Policy(p)
	eTerm, ok2 := enc.FieldErrs(in, errs)
	var term string
	if !ok1 || !ok2 {
		term = cq.App("BadObs05", in.S("PolicyToEvaluate returned a value outside the observable type: "+p.String()))
	} else {
		term = cq.App("PolCase", enc.Labels(in, ls), dTerm, pTerm, eTerm)
	}
	nt := false
	for _, k := range labelKeys {
		if _, ok := ls[k]; ok {
			nt = true
		}
	}
	return cq.Case{Term: term, Key: key, Nontrivial: nt, Tags: tags, Sample: sample, Uses: in.TakeUses()}
}

func verCase(in *cq.Interner, s string) cq.Case {
	v, err := api.ParseVersion(s)
	printed := v.String()
	sample := map[string]interface{}{"kind": "ParseVersion", "input": s, "ok": err == nil, "printed": printed}
	var term string
	if !enc.VersionOK(v) {
		term = cq.App("BadObs05", in.S("ParseVersion returned negative component for "+s))
	} else {
		term = cq.App("VerCase", in.S(s), cq.Bool(err == nil), enc.Version(v), in.S(printed))
	}
	return cq.Case{Term: term, Key: "ver|" + s, Nontrivial: true, Tags: []string{"kind:version", fmt.Sprintf("version_ok:%v", err == nil)}, Sample: sample, Uses: in.TakeUses()}
}

func levCase(in *cq.Interner, s string) cq.Case {
	l, err := api.ParseLevel(s)
	sample := map[string]interface{}{"kind": "ParseLevel", "input": s, "ok": err == nil, "level": string(l)}
	lt, ok := enc.Level(l)
	var term string
	if !ok {
		term = cq.App("BadObs05", in.S("ParseLevel returned invalid level "+string(l)))
	} else {
		term = cq.App("LevCase", in.S(s), cq.Bool(err == nil), lt)
	}
	return cq.Case{Term: term, Key: "lev|" + s, Nontrivial: true, Tags: []string{"kind:level", fmt.Sprintf("level_ok:%v", err == nil)}, Sample: sample, Uses: in.TakeUses()}
}

func printCase(in *cq.Interner, minor int) cq.Case {
	v := api.MajorMinorVersion(1, minor)
	printed := v.String()
	v2, err := api.ParseVersion(printed)
	sample := map[string]interface{}{"kind": "Version.String+ParseVersion", "minor": minor, "printed": printed, "ok": err == nil}
	term := cq.App("PrintCase", enc.Version(v), in.S(printed), cq.Bool(err == nil), enc.Version(v2))
	return cq.Case{Term: term, Key: fmt.Sprintf("print|%d", minor), Nontrivial: true, Tags: []string{"kind:print"}, Sample: sample, Uses: in.TakeUses()}
}

// C05 builds the C05 stream: systematic single-label enumeration, string
// products for the parsers, then n random label maps.
func C05(seed int64, n int) (*cq.Set, *cq.Interner) {
	r := rand.New(rand.NewSource(seed))
	in := cq.NewInterner()
	set := &cq.Set{Stream: "c05", Seed: seed, Imports: "Model.Api Corr.C05", CaseTy: "c05_case", RunFn: "run_c05",
		Rule: "cases = single-label enumeration (6 keys x every pool value x 4 defaults) + parser string products + n random label maps x random defaults; distinct by input; non-trivial = at least one pod-security label present (policy cases), every parser case"}
	fixedDefaults := []api.Policy{
		{},
		{Enforce: api.LevelVersion{Level: api.LevelPrivileged, Version: api.LatestVersion()}, Audit: api.LevelVersion{Level: api.LevelPrivileged, Version: api.LatestVersion()}, Warn: api.LevelVersion{Level: api.LevelPrivileged, Version: api.LatestVersion()}},
		{Enforce: api.LevelVersion{Level: api.LevelBaseline, Version: mustVersion("v1.7")}, Audit: api.LevelVersion{Level: api.LevelRestricted, Version: mustVersion("v1.24")}, Warn: api.LevelVersion{Level: api.LevelBaseline, Version: api.LatestVersion()}},
		{Enforce: api.LevelVersion{Level: api.LevelRestricted, Version: api.LatestVersion()}, Audit: api.LevelVersion{Level: api.LevelBaseline, Version: mustVersion("v1.0")}, Warn: api.LevelVersion{Level: api.LevelRestricted, Version: mustVersion("v1.40")}},
	}
	// the zero-value default policy has invalid (empty) levels: not an input the property ranges over
	fixedDefaults = fixedDefaults[1:]
	var pool []string
	pool = append(pool, LevelNames...)
	pool = append(pool, ValidVersions...)
	pool = append(pool, BadVersions...)
	pool = append(pool, BadLevels...)
	for _, d := range fixedDefaults {
		set.Cases = append(set.Cases, polCase(in, nil, d))
		set.Cases = append(set.Cases, polCase(in, map[string]string{}, d))
		set.Cases = append(set.Cases, polCase(in, map[string]string{"app": "x"}, d))
		for _, k := range labelKeys {
			for _, v := range pool {
				set.Cases = append(set.Cases, polCase(in, map[string]string{k: v}, d))
			}
		}
		// enforce level x warn-version / enforce-version interactions
		for _, el := range append(append([]string{}, LevelNames...), "Bogus") {
			for _, ev := range []string{"", "v1.3", "bad"} {
				for _, wv := range []string{"", "v1.9", "bad"} {
					m := map[string]string{api.EnforceLevelLabel: el}
					if ev != "" {
						m[api.EnforceVersionLabel] = ev
					}
					if wv != "" {
						m[api.WarnVersionLabel] = wv
					}
					set.Cases = append(set.Cases, polCase(in, m, d))
				}
			}
		}
	}
	// parser string products
	seen := map[string]bool{}
	add := func(s string) {
		if seen[s] {
			return
		}
		seen[s] = true
		set.Cases = append(set.Cases, verCase(in, s))
		set.Cases = append(set.Cases, levCase(in, s))
	}
	for _, s := range pool {
		add(s)
	}
	for _, pre := range []string{"v1.", "v2.", "V1.", "v1", "1.", "", "v1..", " v1."} {
		for _, dg := range []string{"0", "00", "01", "5", "10", "32", "007", "9223372036854775807", "9223372036854775808", "18446744073709551616", ""} {
			for _, suf := range []string{"", " ", "\n", "a", ".0", "\x00"} {
				add(pre + dg + suf)
			}
		}
	}
	for _, l := range LevelNames {
		for _, suf := range []string{" ", "\n", "s", "\t"} {
			add(l + suf)
			add(suf + l)
		}
		add(strings.ToUpper(l))
		add(strings.Title(l))
		add(l[:len(l)-1])
	}
	for _, m := range []int{0, 1, 9, 10, 19, 32, 99, 100, 1000, 1 << 31, 1<<62 + 5, 1<<63 - 1} {
		set.Cases = append(set.Cases, printCase(in, m))
	}
	for i := 0; i < 40; i++ {
		set.Cases = append(set.Cases, printCase(in, r.Intn(100000)))
	}
	for i := 0; i < n; i++ {
		set.Cases = append(set.Cases, polCase(in, RandLabels(r), RandDefaults(r)))
	}
	return set, in
}
