package streams

import (
	"fmt"
	"math/rand"
	"reflect"

	corev1 "k8s.io/api/core/v1"
	"k8s.io/pod-security-admission/policy"
	"psaverif/internal/adm"
	"psaverif/internal/cq"
)

// goAPIValid is Model/Pod.api_valid on the Go object: at most one source per
// volume; on os=windows pods no container capabilities / seccompProfile and no
// pod-level seccompProfile.
func goAPIValid(p *corev1.Pod) bool {
	for i := range p.Spec.Volumes {
		v := reflect.ValueOf(p.Spec.Volumes[i].VolumeSource)
		n := 0
		for k := 0; k < v.NumField(); k++ {
			if f := v.Field(k); f.Kind() == reflect.Ptr && !f.IsNil() {
				n++
			}
		}
		if n > 1 {
			return false
		}
	}
	if p.Spec.OS == nil || p.Spec.OS.Name != "windows" {
		return true
	}
	ok := func(sc *corev1.SecurityContext) bool {
		return sc == nil || (sc.Capabilities == nil && sc.SeccompProfile == nil)
	}
	for _, c := range p.Spec.Containers {
		if !ok(c.SecurityContext) {
			return false
		}
	}
	for _, c := range p.Spec.InitContainers {
		if !ok(c.SecurityContext) {
			return false
		}
	}
	for _, c := range p.Spec.EphemeralContainers {
		if !ok(c.SecurityContext) {
			return false
		}
	}
	return p.Spec.SecurityContext == nil || p.Spec.SecurityContext.SeccompProfile == nil
}

var c03admVersions = []string{"latest", "v1.0", "v1.7", "v1.8", "v1.18", "v1.19", "v1.21", "v1.22", "v1.24", "v1.25", "v1.26", "v1.28", "v1.29", "v1.31", "v1.32", "v1.40", "bogus"}

// c03admTriples: the level ordering seen through Admission.Validate.  The same
// pod CREATE / significant UPDATE is sent under enforce = restricted, baseline
// and privileged at one version (namespace labels or, for every third triple,
// the configured defaults); the verdicts must be monotone (allowed under a
// stricter level => allowed under a laxer one; no audit-violations annotation
// when auditing at the stricter level => none at a laxer one: Properties/Compositions
// audit_findings_antitone) for API-valid pods, and each of
// the three requests is also a case for the admission model (run_adm pf01).
func c03admTriples(set *cq.Set, in *cq.Interner, r *rand.Rand, n int, real, marker policy.Evaluator) {
	levels := []string{"restricted", "baseline", "privileged"}
	for i := 0; i < n; i++ {
		var base scenario
		for {
			base = podScenario(r, false)
			if base.Req.Object.Kind == "pod" && base.Req.Object.Pod != nil && (base.Req.Op == "CREATE" || base.Req.Op == "UPDATE") {
				break
			}
		}
		base.Req.Subresource = ""
		base.World.NSErr = false
		base.Cfg.ExNS, base.Cfg.ExUsers, base.Cfg.ExRCs = nil, nil, nil
		ver := c03admVersions[r.Intn(len(c03admVersions))]
		viaDefaults := i%3 == 2 && ver != "bogus"
		valid := goAPIValid(base.Req.Object.Pod)
		var allowed [3]bool
		var evaluated [3]bool
		var audited [3]bool
		for k, lvl := range levels {
			s := base
			s.World.NSLabels = map[string]string{}
			for key, v := range base.World.NSLabels { // keep the advisory labels of the draw
				if key != "pod-security.kubernetes.io/enforce" && key != "pod-security.kubernetes.io/enforce-version" &&
					key != "pod-security.kubernetes.io/audit" && key != "pod-security.kubernetes.io/audit-version" {
					s.World.NSLabels[key] = v
				}
			}
			if viaDefaults {
				lv, err := parseLV(lvl + ":" + ver)
				if err != nil {
					continue
				}
				s.Cfg.Defaults.Enforce = lv
				s.Cfg.Defaults.Audit = lv
			} else {
				s.World.NSLabels["pod-security.kubernetes.io/enforce"] = lvl
				s.World.NSLabels["pod-security.kubernetes.io/enforce-version"] = ver
				s.World.NSLabels["pod-security.kubernetes.io/audit"] = lvl // the audit mode follows the enforce mode of the triple
				s.World.NSLabels["pod-security.kubernetes.io/audit-version"] = ver
			}
			s.LVs = candidateLVs([]map[string]string{s.World.NSLabels}, s.Cfg.Defaults)
			s.Tags = append(append([]string{}, base.Tags...), "c03adm:"+lvl, fmt.Sprintf("c03adm-valid:%v", valid))
			obs := adm.Run(&s.Cfg, real, &s.Req, &s.World)
			if obs.Panic == "" && obs.Resp != nil {
				allowed[k], evaluated[k] = obs.Resp.Allowed, true
				audited[k] = obs.Resp.AuditAnnotations["pod-security.kubernetes.io/audit-violations"] != ""
				s.Tags = append(s.Tags, fmt.Sprintf("c03adm:%s:allowed=%v", lvl, obs.Resp.Allowed)) // how often the premise of the ordering is met
			}
			c, fails := admCase(in, &s, real, marker)
			set.GoFails = append(set.GoFails, fails...)
			if c.Term != "" {
				set.Cases = append(set.Cases, c)
			}
		}
		if !valid {
			continue
		}
		for a := 0; a < 3; a++ {
			for b := a + 1; b < 3; b++ {
				if evaluated[a] && evaluated[b] && !audited[a] && audited[b] {
					set.GoFails = append(set.GoFails, cq.GoFail{
						What: fmt.Sprintf("level ordering of advisory findings: the same pod request carries no audit-violations annotation under audit=%s:%s and carries one under audit=%s:%s", levels[a], ver, levels[b], ver),
						Replay: map[string]interface{}{"cfg_strings": cfgStrings(&base.Cfg), "request": base.Req, "advisory_labels": base.World.NSLabels, "version": ver, "via_defaults": viaDefaults,
							"signature": "c03adm/audit/" + levels[a] + ">" + levels[b]}})
				}
				if evaluated[a] && evaluated[b] && allowed[a] && !allowed[b] {
					set.GoFails = append(set.GoFails, cq.GoFail{
						What: fmt.Sprintf("level ordering through admission: the same pod request is allowed under enforce=%s:%s and denied under enforce=%s:%s", levels[a], ver, levels[b], ver),
						Replay: map[string]interface{}{"cfg_strings": cfgStrings(&base.Cfg), "request": base.Req, "advisory_labels": base.World.NSLabels, "version": ver, "via_defaults": viaDefaults,
							"signature": "c03adm/" + levels[a] + ">" + levels[b]}})
				}
			}
		}
	}
}
