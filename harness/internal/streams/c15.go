//go:build verif

package streams

import (
	"fmt"
	"math/rand"
	"reflect"
	"sync"
	"time"

	admissionv1 "k8s.io/api/admission/v1"
	compbasemetrics "k8s.io/component-base/metrics"
	"k8s.io/pod-security-admission/admission"
	"k8s.io/pod-security-admission/api"
	"k8s.io/pod-security-admission/metrics"
	"psaverif/internal/adm"
	"psaverif/internal/cq"
	"psaverif/internal/enc"
)

func snapshotShared() map[string]*admissionv1.AdmissionResponse {
	out := map[string]*admissionv1.AdmissionResponse{}
	for k, v := range admission.VerifSharedResponses() {
		out[k] = v.DeepCopy()
	}
	return out
}

// C15: histories through a long-lived Admission vs fresh instances, sequentially and concurrently.
func C15(seed int64, n int) (*cq.Set, *cq.Interner) { return c15Stream(seed, n, false) }

// C18Hist: the C15 histories with the long-lived instance's counters compared, after the sequential phase, with
// the sum of what each request records when handled alone by a fresh instance (filed under C18).
func C18Hist(seed int64, n int) (*cq.Set, *cq.Interner) { return c15Stream(seed, n, true) }

func c15Stream(seed int64, n int, metricsCheck bool) (*cq.Set, *cq.Interner) {
	r := rand.New(rand.NewSource(seed))
	in := cq.NewInterner()
	set := &cq.Set{Stream: "c15", Seed: seed, Imports: "Model.Api Model.Pod Model.Checks Model.Admission Model.Wire Corr.Adm Corr.C15", CaseTy: "c15_case", RunFn: "run_c15",
		Rule: "histories of 40 requests (pods, controllers, namespaces; all fault and exemption classes) under one configuration per history: each request is answered by a freshly constructed Admission, by one long-lived Admission (real PrometheusRecorder) after all earlier requests of the history, and by the same long-lived instance while 16 goroutines replay the whole history concurrently; the five shared response objects are snapshotted after every request; distinct by (config, request, world); non-trivial = at least one dependency call"}
	initial := snapshotShared()
	histories := n / 40
	if histories < 1 {
		histories = 1
	}
	for h := 0; h < histories; h++ {
		marker := r.Intn(2) == 0
		cfg := admCfg(r, r.Intn(3) == 0)
		inner := innerEvaluator(marker)
		rec := metrics.NewPrometheusRecorder(api.MajorMinorVersion(1, 30))
		reg := compbasemetrics.NewKubeRegistry()
		rec.MustRegister(reg.MustRegister)
		ll, err := adm.NewLongLived(&cfg, inner, rec)
		if err != nil {
			set.GoFails = append(set.GoFails, cq.GoFail{What: "cannot build Admission: " + err.Error(), Replay: map[string]interface{}{"cfg": cfg}})
			continue
		}
		// the same few namespace policies recur within a history (pods and controllers under one policy)
		pool := []map[string]string{admLabels(r, 40), admLabels(r, 40), {}}
		labelHook = func(r *rand.Rand) map[string]string {
			if r.Intn(100) < 60 {
				return pool[r.Intn(len(pool))]
			}
			return nil
		}
		var scs []scenario
		for i := 0; i < 40; i++ {
			var s scenario
			switch r.Intn(3) {
			case 0:
				s = podScenario(r, marker)
			case 1:
				s = controllerScenario(r, marker)
			default:
				s = namespaceScenario(r, marker)
				s.World.ExpireAfter = nil
				// request deadlines long enough never to expire inside the dry run, short enough to bound it
				s.Req.DeadlineIn = nil
				if d := []time.Duration{0, 0, 1500 * time.Millisecond, 1900 * time.Millisecond, 3 * time.Second}[r.Intn(5)]; d > 0 {
					s.Req.DeadlineIn = &d
				}
			}
			s.Cfg = cfg
			s.Marker = marker
			scs = append(scs, s)
		}
		labelHook = nil
		long := make([]*admissionv1.AdmissionResponse, len(scs))
		longShared := make([]string, len(scs))
		for i := range scs {
			resp, sh, pan, dl := ll.ServeChecked(&scs[i].Req, &scs[i].World)
			if dl != "" {
				set.GoFails = append(set.GoFails, cq.GoFail{What: "on a long-lived instance the dry-run deadline depends on earlier requests: " + dl, Replay: map[string]interface{}{"history": h, "position": i, "cfg": cfg, "request": scs[i].Req, "world": scs[i].World, "earlier_requests": scs[:i]}})
			}
			if pan != "" {
				set.GoFails = append(set.GoFails, cq.GoFail{What: "Validate panicked on a long-lived instance: " + pan, Replay: map[string]interface{}{"request": scs[i].Req, "world": scs[i].World}})
				continue
			}
			long[i], longShared[i] = resp.DeepCopy(), sh
			if now := snapshotShared(); !reflect.DeepEqual(now, initial) {
				set.GoFails = append(set.GoFails, cq.GoFail{What: "a process-wide shared response object was modified while serving a request", Replay: map[string]interface{}{"request": scs[i].Req, "world": scs[i].World, "shared_now": now}})
				initial = now
			}
		}
		if metricsCheck {
			want := map[string]float64{}
			for i := range scs {
				fresh := adm.Run(&scs[i].Cfg, inner, &scs[i].Req, &scs[i].World)
				for _, e := range fresh.Trace {
					switch e.Kind {
					case "meval":
						want["pod_security_evaluations_total"]++
					case "mexempt":
						want["pod_security_exemptions_total"]++
					case "merror":
						want["pod_security_errors_total"]++
					}
				}
			}
			got := map[string]float64{}
			if fams, err := reg.Gather(); err == nil {
				for _, fam := range fams {
					for _, m := range fam.GetMetric() {
						got[fam.GetName()] += m.GetCounter().GetValue()
					}
				}
			}
			for _, name := range []string{"pod_security_evaluations_total", "pod_security_exemptions_total", "pod_security_errors_total"} {
				if got[name] != want[name] {
					set.GoFails = append(set.GoFails, cq.GoFail{What: fmt.Sprintf("after a history of %d requests on one long-lived instance %s totals %v, but the requests handled one by one by fresh instances record %v", len(scs), name, got[name], want[name]),
						Replay: map[string]interface{}{"history": h, "cfg": cfg, "requests": scs, "counter": name, "long_lived_total": got[name], "sum_of_fresh": want[name]}})
				}
			}
		}
		// concurrent replay
		conc := make([]*admissionv1.AdmissionResponse, len(scs))
		concShared := make([]string, len(scs))
		var wg sync.WaitGroup
		var mu sync.Mutex
		adm.SlowLister.Store(true)
		for g := 0; g < 16; g++ {
			wg.Add(1)
			go func(g int) {
				defer wg.Done()
				for k := range scs {
					// goroutines g and g+8 walk the history in the same order: the same request (same
					// namespace) is in flight twice at once; the other pairs run different requests
					i := (k*7 + (g%8)*3) % len(scs)
					resp, sh, pan, dl := ll.ServeChecked(&scs[i].Req, &scs[i].World)
					if dl != "" {
						mu.Lock()
						set.GoFails = append(set.GoFails, cq.GoFail{What: "under concurrent handling the dry-run deadline depends on other requests: " + dl, Replay: map[string]interface{}{"history": h, "position": i, "cfg": cfg, "request": scs[i].Req, "world": scs[i].World}})
						mu.Unlock()
					}
					if pan != "" || resp == nil {
						continue
					}
					cp := resp.DeepCopy()
					mu.Lock()
					if conc[i] == nil || !reflect.DeepEqual(conc[i], long[i]) {
						// keep a deviating answer if there is one
						if conc[i] == nil || reflect.DeepEqual(conc[i], long[i]) {
							conc[i], concShared[i] = cp, sh
						}
					}
					mu.Unlock()
				}
			}(g)
		}
		wg.Wait()
		adm.SlowLister.Store(false)
		if now := snapshotShared(); !reflect.DeepEqual(now, initial) {
			set.GoFails = append(set.GoFails, cq.GoFail{What: "a process-wide shared response object was modified during concurrent handling", Replay: map[string]interface{}{"shared_now": now}})
			initial = now
		}
		for i := range scs {
			s := &scs[i]
			fresh := adm.Run(&s.Cfg, inner, &s.Req, &s.World)
			if fresh.Resp == nil || long[i] == nil || conc[i] == nil {
				continue
			}
			var evals []string
			for _, p := range scenarioPods(s) {
				for _, lv := range s.LVs {
					rs := inner.EvaluatePod(lv, &p.ObjectMeta, &p.Spec)
					var bad []string
					for j, x := range rs {
						if t := crTerm(in, x); t != "cr_ok" {
							bad = append(bad, cq.App("bda", fmt.Sprint(j), t))
						}
					}
					lt, _ := enc.LV(lv)
					evals = append(evals, cq.App("eve", lt, in.S(p.Name), fmt.Sprint(len(rs)), cq.List(bad)))
				}
			}
			term := cq.App("C15Case", adm.CfgTerm(in, &s.Cfg), cq.Bool(s.Marker), adm.ReqTerm(in, &s.Req), adm.WorldTerm(in, &s.World), cq.List(evals),
				adm.RespTerm(in, fresh.Resp, fresh.Shared), adm.RespTerm(in, long[i], longShared[i]), adm.RespTerm(in, conc[i], concShared[i]))
			set.Cases = append(set.Cases, cq.Case{Term: term, Key: fmt.Sprintf("%v|%+v|%+v|%+v", s.Marker, s.Cfg, s.Req, s.World), Nontrivial: len(fresh.Trace) > 0,
				Tags: append(append([]string{}, s.Tags...), "shared:"+fresh.Shared), Sample: map[string]interface{}{"history": h, "position": i, "cfg": s.Cfg, "request": s.Req, "world": s.World,
					"fresh": fresh.Resp, "long_lived": long[i], "concurrent": conc[i]}, Uses: in.TakeUses()})
		}
	}
	return set, in
}
