//go:build verif

package streams

import (
	"encoding/json"
	"fmt"
	"math/rand"
	"strings"

	"k8s.io/apimachinery/pkg/util/validation/field"
	"k8s.io/pod-security-admission/admission"
	admissionapi "k8s.io/pod-security-admission/admission/api"
	"k8s.io/pod-security-admission/admission/api/load"
	"k8s.io/pod-security-admission/admission/api/validation"
	"psaverif/internal/adm"
	"psaverif/internal/cq"
	"psaverif/internal/enc"
)

type member struct {
	Key  string      // apiVersion | kind | defaults | exemptions | other
	Str  string      // apiVersion / kind value
	Defs [][2]string // defaults entries in order
	Exs  []exEntry   // exemptions entries in order
}
type exEntry struct {
	Key  string
	Vals []string
}

func jstr(s string) string { b, _ := json.Marshal(s); return string(b) }

func renderJSON(ms []member) string {
	var parts []string
	for _, m := range ms {
		switch m.Key {
		case "apiVersion", "kind":
			parts = append(parts, jstr(m.Key)+": "+jstr(m.Str))
		case "defaults":
			var es []string
			for _, e := range m.Defs {
				es = append(es, jstr(e[0])+": "+jstr(e[1]))
			}
			parts = append(parts, `"defaults": {`+strings.Join(es, ", ")+`}`)
		case "exemptions":
			var es []string
			for _, e := range m.Exs {
				var vs []string
				for _, v := range e.Vals {
					vs = append(vs, jstr(v))
				}
				es = append(es, jstr(e.Key)+": ["+strings.Join(vs, ", ")+"]")
			}
			parts = append(parts, `"exemptions": {`+strings.Join(es, ", ")+`}`)
		default:
			parts = append(parts, jstr(m.Key)+": "+jstr("x"))
		}
	}
	return "{" + strings.Join(parts, ", ") + "}"
}

func renderYAML(ms []member) string {
	var b strings.Builder
	for _, m := range ms {
		switch m.Key {
		case "apiVersion", "kind":
			fmt.Fprintf(&b, "%s: %s\n", m.Key, jstr(m.Str))
		case "defaults":
			if len(m.Defs) == 0 {
				b.WriteString("defaults: {}\n")
				continue
			}
			b.WriteString("defaults:\n")
			for _, e := range m.Defs {
				fmt.Fprintf(&b, "  %s: %s\n", jstr(e[0]), jstr(e[1]))
			}
		case "exemptions":
			if len(m.Exs) == 0 {
				b.WriteString("exemptions: {}\n")
				continue
			}
			b.WriteString("exemptions:\n")
			for _, e := range m.Exs {
				if len(e.Vals) == 0 {
					fmt.Fprintf(&b, "  %s: []\n", jstr(e.Key))
					continue
				}
				fmt.Fprintf(&b, "  %s:\n", jstr(e.Key))
				for _, v := range e.Vals {
					fmt.Fprintf(&b, "  - %s\n", jstr(v))
				}
			}
		default:
			fmt.Fprintf(&b, "%s: x\n", jstr(m.Key))
		}
	}
	return b.String()
}

var cfgLevelValues = []string{"privileged", "baseline", "restricted", "", "Baseline", "bogus", "latest"}
var cfgVersionValues = []string{"latest", "v1.0", "v1.25", "v1.100", "", "v1.05", "1.2", "v2.0", "restricted"}
var cfgNamespaces = []string{"kube-system", "a", "my-ns", "ns1", "A", "-x", "x-", "a.b", "", "a_b", strings.Repeat("a", 63), strings.Repeat("a", 64), "kube-system"}
var cfgRuntimeClasses = []string{"kata", "gvisor.io", "a.b-c.d", "A", "a..b", ".a", "a.", "", "kata", strings.Repeat("a", 253), strings.Repeat("a", 254), "x_y"}
var cfgUsers = []string{"alice", "system:admin", "", "alice", "Bob", "a b"}

func randList(r *rand.Rand, pool []string) []string {
	n := r.Intn(4)
	var out []string
	for i := 0; i < n; i++ {
		x := r.Intn(100)
		if x < 70 {
			out = append(out, pool[r.Intn(3)]) // mostly valid (and repeatable => duplicates)
		} else {
			out = append(out, pool[r.Intn(len(pool))])
		}
	}
	return out
}

func randDoc(r *rand.Rand) []member {
	var ms []member
	av := "pod-security.admission.config.k8s.io/" + pick(r, []string{"v1", "v1", "v1beta1", "v1alpha1"})
	switch x := r.Intn(100); {
	case x < 6:
		av = pick(r, []string{"pod-security.admission.config.k8s.io/__internal", "pod-security.admission.config.k8s.io/v2", "pod-security.admission.config.k8s.io/V1", "pod-security.admission.config.k8s.io", "v1", "apiserver.config.k8s.io/v1", "pod-security.admission.config.k8s.io/v1 "})
	}
	kind := "PodSecurityConfiguration"
	if r.Intn(100) < 5 {
		kind = pick(r, []string{"PodSecurityConfig", "podsecurityconfiguration", "AdmissionConfiguration", ""})
	}
	if r.Intn(100) < 96 {
		ms = append(ms, member{Key: "apiVersion", Str: av})
	}
	if r.Intn(100) < 96 {
		ms = append(ms, member{Key: "kind", Str: kind})
	}
	if r.Intn(100) < 80 {
		var defs [][2]string
		keys := []string{"enforce", "enforce-version", "audit", "audit-version", "warn", "warn-version"}
		for _, k := range keys {
			if r.Intn(100) < 50 {
				v := pick(r, cfgVersionValues)
				if !strings.HasSuffix(k, "-version") {
					v = pick(r, cfgLevelValues)
				}
				if r.Intn(100) < 65 { // bias to valid
					if strings.HasSuffix(k, "-version") {
						v = pick(r, cfgVersionValues[:4])
					} else {
						v = pick(r, cfgLevelValues[:3])
					}
				}
				defs = append(defs, [2]string{k, v})
			}
		}
		if r.Intn(100) < 6 {
			defs = append(defs, [2]string{pick(r, []string{"Enforce", "enforceVersion", "enforce_version", "mode"}), "baseline"})
		}
		if r.Intn(100) < 5 && len(defs) > 0 {
			defs = append(defs, defs[r.Intn(len(defs))]) // duplicated key
		}
		ms = append(ms, member{Key: "defaults", Defs: defs})
	}
	if r.Intn(100) < 75 {
		var exs []exEntry
		if r.Intn(100) < 60 {
			exs = append(exs, exEntry{"usernames", randList(r, cfgUsers)})
		}
		if r.Intn(100) < 60 {
			exs = append(exs, exEntry{"namespaces", randList(r, cfgNamespaces)})
		}
		if r.Intn(100) < 60 {
			exs = append(exs, exEntry{"runtimeClasses", randList(r, cfgRuntimeClasses)})
		}
		if r.Intn(100) < 5 {
			exs = append(exs, exEntry{pick(r, []string{"runtimeclasses", "users", "Namespaces"}), []string{"a"}})
		}
		if r.Intn(100) < 4 && len(exs) > 0 {
			exs = append(exs, exs[0])
		}
		ms = append(ms, member{Key: "exemptions", Exs: exs})
	}
	if r.Intn(100) < 6 {
		ms = append(ms, member{Key: pick(r, []string{"Defaults", "exemption", "metadata", "spec"})})
	}
	if r.Intn(100) < 4 && len(ms) > 0 {
		ms = append(ms, ms[r.Intn(len(ms))]) // duplicated top-level member
	}
	r.Shuffle(len(ms), func(i, j int) { ms[i], ms[j] = ms[j], ms[i] })
	return ms
}

func docTerm(in *cq.Interner, ms []member) string {
	var items []string
	for _, m := range ms {
		switch m.Key {
		case "apiVersion":
			items = append(items, cq.App("MApiVersion", in.S(m.Str)))
		case "kind":
			items = append(items, cq.App("MKind", in.S(m.Str)))
		case "defaults":
			var es []string
			for _, e := range m.Defs {
				es = append(es, cq.Pair(in.S(e[0]), in.S(e[1])))
			}
			items = append(items, cq.App("MDefaults", cq.List(es)))
		case "exemptions":
			var es []string
			for _, e := range m.Exs {
				es = append(es, cq.Pair(in.S(e.Key), in.StrList(e.Vals)))
			}
			items = append(items, cq.App("MExemptions", cq.List(es)))
		default:
			items = append(items, cq.App("MUnknown", in.S(m.Key)))
		}
	}
	return cq.App("InDoc", cq.List(items))
}

func loadedTerm(in *cq.Interner, c *admissionapi.PodSecurityConfiguration) string {
	d := c.Defaults
	return cq.App("Loaded", in.S(d.Enforce), in.S(d.EnforceVersion), in.S(d.Audit), in.S(d.AuditVersion), in.S(d.Warn), in.S(d.WarnVersion),
		in.StrList(c.Exemptions.Usernames), in.StrList(c.Exemptions.Namespaces), in.StrList(c.Exemptions.RuntimeClasses))
}

func verrTerms(in *cq.Interner, errs field.ErrorList) ([]string, bool) {
	var out []string
	for _, e := range errs {
		path, idx := e.Field, 0
		if i := strings.Index(path, "["); i >= 0 {
			fmt.Sscanf(path[i:], "[%d]", &idx)
			path = path[:i]
		}
		kind := "Invalid"
		switch e.Type {
		case field.ErrorTypeInvalid:
		case field.ErrorTypeDuplicate:
			kind = "Duplicate"
		default:
			return nil, false
		}
		out = append(out, cq.App("ve", in.S(path), fmt.Sprint(idx), kind))
	}
	return out, true
}

// C17 builds the configuration stream.
func C17(seed int64, n int) (*cq.Set, *cq.Interner) {
	r := rand.New(rand.NewSource(seed))
	in := cq.NewInterner()
	set := &cq.Set{Stream: "c17", Seed: seed, Imports: "Model.Api Model.Config Corr.C17", CaseTy: "c17_case", RunFn: "run_c17",
		Rule: "abstract documents (any subset of apiVersion/kind/defaults/exemptions in any order, served and unserved apiVersions, unknown, mis-cased and duplicated keys at every level, valid and malformed values for the six defaults, DNS-label / DNS-subdomain / user name edge cases incl. length limits and duplicates) rendered as JSON and as block YAML; each through load.LoadFromData, ValidatePodSecurityConfiguration, and CompleteConfiguration+ValidateConfiguration of an Admission whose default policy is then observed; also empty input and syntactically broken input; distinct by (format, document); non-trivial = document with at least one member"}
	// a loaded configuration belongs to its caller: whatever an earlier caller did to the object it was
	// handed, the same input (empty input included, by every loader) loads to the same configuration
	for _, probe := range []struct {
		name string
		get  func() (*admissionapi.PodSecurityConfiguration, error)
	}{
		{"LoadFromData(nil)", func() (*admissionapi.PodSecurityConfiguration, error) { return load.LoadFromData(nil) }},
		{"LoadFromData(empty)", func() (*admissionapi.PodSecurityConfiguration, error) { return load.LoadFromData([]byte{}) }},
		{"LoadFromReader(nil)", func() (*admissionapi.PodSecurityConfiguration, error) { return load.LoadFromReader(nil) }},
		{"LoadFromFile(\"\")", func() (*admissionapi.PodSecurityConfiguration, error) { return load.LoadFromFile("") }},
		{"LoadFromData(document)", func() (*admissionapi.PodSecurityConfiguration, error) {
			return load.LoadFromData([]byte(`{"apiVersion":"pod-security.admission.config.k8s.io/v1","kind":"PodSecurityConfiguration","defaults":{"warn":"baseline"},"exemptions":{"namespaces":["kube-system"]}}`))
		}},
	} {
		first, err := probe.get()
		if err != nil || first == nil {
			continue // the per-document cases below report load failures
		}
		snap, _ := json.Marshal(first)
		first.Defaults.Enforce, first.Defaults.EnforceVersion, first.Defaults.Audit, first.Defaults.Warn = "restricted", "v1.1", "bogus", ""
		first.Exemptions.Namespaces = append(first.Exemptions.Namespaces, "scribbled")
		first.Exemptions.Usernames = append(first.Exemptions.Usernames, "scribbled")
		for k := range first.Exemptions.Namespaces {
			first.Exemptions.Namespaces[k] = "scribbled"
		}
		second, err2 := probe.get()
		snap2, _ := json.Marshal(second)
		if err2 != nil || string(snap) != string(snap2) {
			set.GoFails = append(set.GoFails, cq.GoFail{What: "loading the same input twice gives different configurations after the first result was modified by its caller (" + probe.name + ")",
				Replay: map[string]interface{}{"loader": probe.name, "first": string(snap), "second": string(snap2), "second_error": fmt.Sprint(err2), "signature": "c17/shared-config/" + probe.name}})
		}
	}
	add := func(format string, inputTermFn func() string, data []byte, sample map[string]interface{}) {
		inputTerm := inputTermFn()
		cfg, err := load.LoadFromData(data)
		sample["format"] = format
		loaded := "None"
		var errTerms []string
		enforced := "None"
		if err == nil && cfg != nil {
			loaded = cq.App("Some", loadedTerm(in, cfg))
			errs := validation.ValidatePodSecurityConfiguration(cfg)
			ts, ok := verrTerms(in, errs)
			if !ok {
				set.GoFails = append(set.GoFails, cq.GoFail{What: "validation returned an error of an unexpected type: " + errs.ToAggregate().Error(), Replay: sample})
				return
			}
			errTerms = ts
			sample["validation_errors"] = fmt.Sprint(errs)
			a := &admission.Admission{Configuration: cfg, Evaluator: adm.MarkerEvaluator{}, Metrics: adm.NullMetrics{}, NamespaceGetter: staticNS{}, PodLister: noPods{}}
			if e1 := a.CompleteConfiguration(); e1 == nil {
				if e2 := a.ValidateConfiguration(); e2 == nil {
					pol, _ := a.PolicyToEvaluate(nil)
					if t, ok := enc.Policy(pol); ok {
						enforced = cq.App("Some", t)
					}
					sample["enforced_default_policy"] = pol.String()
				} else if len(errs) == 0 {
					sample["validate_configuration_error"] = e2.Error()
				}
			} else if len(errs) == 0 {
				sample["complete_configuration_error"] = e1.Error()
			}
		} else if err != nil {
			sample["load_error"] = err.Error()
		}
		term := cq.App("C17Case", inputTerm, loaded, cq.List(errTerms), enforced)
		set.Cases = append(set.Cases, cq.Case{Term: term, Key: format + "|" + string(data), Nontrivial: len(data) > 2,
			Tags: []string{"format:" + format, fmt.Sprintf("loaded:%v", err == nil), fmt.Sprintf("valid:%v", err == nil && len(errTerms) == 0)}, Sample: sample, Uses: in.TakeUses()})
	}
	lit := func(s string) func() string { return func() string { return s } }
	add("empty", lit("InEmpty"), nil, map[string]interface{}{"document": ""})
	add("empty", lit("InEmpty"), []byte{}, map[string]interface{}{"document": ""})
	for _, bad := range []string{"{", "[]", "42", `{"apiVersion": 3}`, `{"apiVersion":"pod-security.admission.config.k8s.io/v1","kind":"PodSecurityConfiguration","defaults":{"enforce":1}}`,
		`{"apiVersion":"pod-security.admission.config.k8s.io/v1","kind":"PodSecurityConfiguration","exemptions":{"usernames":"a"}}`, "apiVersion: [\n"} {
		add("malformed", lit("InMalformed"), []byte(bad), map[string]interface{}{"document": bad})
	}
	// the internal (unserved) version, alone and with content
	for _, av := range []string{"pod-security.admission.config.k8s.io/__internal", "pod-security.admission.config.k8s.io/"} {
		for _, extra := range [][]member{nil, {{Key: "defaults", Defs: [][2]string{{"enforce", "baseline"}}}}, {{Key: "exemptions"}}} {
			ms := append([]member{{Key: "kind", Str: "PodSecurityConfiguration"}, {Key: "apiVersion", Str: av}}, extra...)
			t := func() string { return docTerm(in, ms) }
			js := renderJSON(ms)
			add("json", t, []byte(js), map[string]interface{}{"document": js})
			ys := renderYAML(ms)
			add("yaml", t, []byte(ys), map[string]interface{}{"document": ys})
		}
	}
	for i := 0; i < n; i++ {
		ms := randDoc(r)
		t := func() string { return docTerm(in, ms) }
		js := renderJSON(ms)
		add("json", t, []byte(js), map[string]interface{}{"document": js})
		ys := renderYAML(ms)
		if len(ms) > 0 {
			add("yaml", t, []byte(ys), map[string]interface{}{"document": ys})
		}
	}
	return set, in
}
