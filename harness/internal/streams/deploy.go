//go:build verif

package streams

import (
	"bytes"
	"encoding/json"
	"fmt"
	"math/rand"
	"net/http"
	"net/http/httptest"

	admissionv1 "k8s.io/api/admission/v1"
	corev1 "k8s.io/api/core/v1"
	metav1 "k8s.io/apimachinery/pkg/apis/meta/v1"
	"k8s.io/apimachinery/pkg/types"
	apiserver "k8s.io/apiserver/pkg/server"
	restclient "k8s.io/client-go/rest"
	admissionapi "k8s.io/pod-security-admission/admission/api"
	"k8s.io/pod-security-admission/admission/api/load"
	"k8s.io/pod-security-admission/api"
	webhookserver "k8s.io/pod-security-admission/cmd/webhook/server"
	"psaverif/internal/adm"
	"psaverif/internal/apistub"
	"psaverif/internal/cq"
	"psaverif/internal/enc"
)

// validDoc: a document the server accepts, with exemptions drawn from the pools the request generators hit.
func validDoc(r *rand.Rand) []member {
	ms := []member{{Key: "apiVersion", Str: "pod-security.admission.config.k8s.io/" + pick(r, []string{"v1", "v1", "v1beta1", "v1alpha1"})}, {Key: "kind", Str: "PodSecurityConfiguration"}}
	var defs [][2]string
	for _, k := range []string{"enforce", "audit", "warn"} {
		if r.Intn(100) < 70 {
			defs = append(defs, [2]string{k, pick(r, []string{"privileged", "baseline", "restricted", "baseline", "restricted"})})
		}
		if r.Intn(100) < 40 {
			defs = append(defs, [2]string{k + "-version", pick(r, []string{"latest", "v1.0", "v1.19", "v1.24", "v1.25", "v1.100"})})
		}
	}
	r.Shuffle(len(defs), func(i, j int) { defs[i], defs[j] = defs[j], defs[i] })
	if len(defs) > 0 || r.Intn(2) == 0 {
		ms = append(ms, member{Key: "defaults", Defs: defs})
	}
	sh := func(l []string) []string {
		out := append([]string{}, l...)
		r.Shuffle(len(out), func(i, j int) { out[i], out[j] = out[j], out[i] })
		return out[:r.Intn(len(out)+1)]
	}
	if r.Intn(100) < 75 {
		var exs []exEntry
		for _, e := range []exEntry{{"usernames", sh([]string{"system:admin", "exempt-user", "a-user"})}, {"namespaces", sh([]string{"kube-system", "exempt-ns", "zz-ns"})}, {"runtimeClasses", sh([]string{"kata", "exempt-rc", "gvisor"})}} {
			if r.Intn(100) < 75 {
				exs = append(exs, e)
			}
		}
		ms = append(ms, member{Key: "exemptions", Exs: exs})
	}
	r.Shuffle(len(ms), func(i, j int) { ms[i], ms[j] = ms[j], ms[i] })
	return ms
}

// Deploy: configuration documents through LoadFromData and server.Setup (production wiring over a
// stub API server), then AdmissionReview bodies through HandleValidate.
func Deploy(seed int64, n int) (*cq.Set, *cq.Interner) { return DeployStream("c17e2e", seed, n, false) }

// DeployStream: with checkMetrics, the metric families of every deployed server are gathered after its requests
// and the policy_version label of every evaluation series must be latest, future or a version not newer than the
// server's own (C18 through the production wiring: Setup builds the recorder from api.GetAPIVersion()).
func DeployStream(stream string, seed int64, n int, checkMetrics bool) (*cq.Set, *cq.Interner) {
	r := rand.New(rand.NewSource(seed))
	in := cq.NewInterner()
	set := &cq.Set{Stream: stream, Seed: seed, Imports: "Model.Api Model.Pod Model.Checks Model.Admission Model.Wire Model.Sources Model.Config Model.Deploy Corr.Adm Corr.Deploy", CaseTy: "dep_case", RunFn: "run_dep",
		Rule: "configuration documents (3/4 acceptable and valid with exemptions from the request pools, 1/4 from the C17 document generator: unknown/duplicated keys, unserved versions, malformed values), rendered as JSON or YAML, through load.LoadFromData and cmd/webhook/server.Setup with a client for a stub API server (production wiring: namespace lister backed by live GETs, live pod LISTs, default checks, Prometheus recorder); for each deployment 8 AdmissionReview bodies (pods, controllers, namespaces; raw JSON objects) are POSTed to HandleValidate with the namespace labels, pods and failures of the moment set on the stub; the model composes load, to_policy, validation, world_of and handle; distinct by (document, state, request); non-trivial = the server came up"}
	inner := innerEvaluator(false)
	deployments := n / 8
	if deployments < 1 {
		deployments = 1
	}
	for d := 0; d < deployments; d++ {
		var ms []member
		if r.Intn(4) == 0 {
			ms = randDoc(r)
		} else {
			ms = validDoc(r)
		}
		format := "json"
		doc := renderJSON(ms)
		if r.Intn(2) == 0 && len(ms) > 0 {
			format, doc = "yaml", renderYAML(ms)
		}
		stub := apistub.New()
		var srv *webhookserver.Server
		var defaults api.Policy
		var cfgSpec adm.CfgSpec
		deployErr := ""
		cfg, err := load.LoadFromData([]byte(doc))
		if err != nil {
			deployErr = "load: " + err.Error()
		} else {
			srv, err = webhookserver.Setup(&webhookserver.Config{InsecureServing: &apiserver.DeprecatedInsecureServingInfo{}, KubeConfig: &restclient.Config{Host: stub.URL(), QPS: -1}, PodSecurityConfig: cfg})
			if err != nil {
				deployErr, srv = "setup: "+err.Error(), nil
			} else {
				defaults, _ = admissionapi.ToPolicy(cfg.Defaults)
				cfgSpec = adm.CfgSpec{Defaults: defaults, ExNS: cfg.Exemptions.Namespaces, ExUsers: cfg.Exemptions.Usernames, ExRCs: cfg.Exemptions.RuntimeClasses}
			}
		}
		for i := 0; i < 8; i++ {
			var s scenario
			switch r.Intn(3) {
			case 0:
				s = podScenario(r, false)
			case 1:
				s = controllerScenario(r, false)
			default:
				s = namespaceScenario(r, false)
			}
			s.World.ExpireAfter, s.Req.DeadlineIn, s.Req.Wire = nil, nil, true
			name := s.Req.Namespace
			lab := s.World.NSLabels
			if lab == nil {
				lab = map[string]string{}
			}
			st := srcState{Name: name, NSLister: true, ListFails: s.World.ListErr, LivePods: s.World.Pods}
			switch {
			case s.World.NSErr && r.Intn(2) == 0:
				st.LiveNS, st.GetFails = &lab, "injected get failure"
			case s.World.NSErr: // absent
			default:
				st.LiveNS = &lab
			}
			if len(st.LivePods) > 6 {
				st.LivePods = st.LivePods[:6]
			}
			uid := fmt.Sprintf("uid-%d-%d", d, i)
			sample := map[string]interface{}{"document": doc, "format": format, "deploy_error": deployErr, "state": st, "request": s.Req}
			status, answer := "0", "None"
			size := 0
			if srv != nil {
				stub.Set(func(x *apistub.Stub) {
					x.Namespaces = map[string]map[string]string{}
					x.Pods = map[string][]*corev1.Pod{}
					if st.LiveNS != nil {
						x.Namespaces[name] = *st.LiveNS
					}
					for _, p := range st.LivePods {
						q := p.DeepCopy()
						q.Namespace = name
						x.Pods[name] = append(x.Pods[name], q)
					}
				})
				gf, lf := map[int]string{}, map[int]string{}
				if st.GetFails != "" {
					gf[1] = st.GetFails
				}
				if st.ListFails {
					lf[1] = "injected list failure"
				}
				stub.Arm(gf, lf)
				ar := adm.WireRequest(&cfgSpec, &s.Req)
				// inside a review body the objects must at least be JSON: undecodable means an unregistered kind
				for _, raw := range []*[]byte{&ar.Object.Raw, &ar.OldObject.Raw} {
					if *raw != nil && !json.Valid(*raw) {
						*raw = []byte(`{"apiVersion":"example.test/v9","kind":"NoSuchKind","metadata":{"name":"x"}}`)
					}
				}
				review := admissionv1.AdmissionReview{TypeMeta: metav1.TypeMeta{APIVersion: "admission.k8s.io/v1", Kind: "AdmissionReview"}, Request: ar}
				review.Request.UID = typesUID(uid)
				body, _ := json.Marshal(review)
				size = len(body)
				rec := httptest.NewRecorder()
				hreq := httptest.NewRequest(http.MethodPost, "/", bytes.NewReader(body))
				hreq.Header.Set("Content-Type", "application/json")
				func() {
					defer func() {
						if e := recover(); e != nil {
							set.GoFails = append(set.GoFails, cq.GoFail{What: fmt.Sprint("HandleValidate panicked: ", e), Replay: sample})
						}
					}()
					srv.HandleValidate(rec, hreq)
				}()
				status = cq.Z(int64(rec.Code))
				sample["http_status"] = rec.Code
				if rec.Code == 200 {
					var out admissionv1.AdmissionReview
					if err := json.Unmarshal(rec.Body.Bytes(), &out); err == nil && out.Response != nil {
						answer = cq.App("Some", cq.Pair(in.S(string(out.Response.UID)), adm.RespTerm(in, out.Response, "Fresh")))
						sample["response"] = out.Response
					} else {
						sample["undecodable_response"] = rec.Body.String()
					}
				}
			}
			lvs := candidateLVs([]map[string]string{lab, s.Req.Object.Labels, s.Req.Old.Labels}, defaults)
			var evals []string
			seen := map[string]bool{}
			for _, p := range append(scenarioPods(&s), st.LivePods...) {
				for _, lv := range lvs {
					k := p.Name + "|" + lv.String()
					if seen[k] {
						continue
					}
					seen[k] = true
					rs := inner.EvaluatePod(lv, &p.ObjectMeta, &p.Spec)
					var bad []string
					for j, x := range rs {
						if t := crTerm(in, x); t != "cr_ok" {
							bad = append(bad, cq.App("bda", fmt.Sprint(j), t))
						}
					}
					lt, _ := enc.LV(lv)
					evals = append(evals, cq.App("eve", lt, in.S(p.Name), fmt.Sprint(len(rs)), cq.List(bad)))
				}
			}
			getF := "None"
			if st.GetFails != "" {
				getF = cq.App("Some", in.S(st.GetFails))
			}
			term := cq.App("DepCase", docTerm(in, ms), cq.Bool(srv != nil),
				cq.App("Cluster", "[]", labelsList(in, name, st.LiveNS), "[]", podsTerm(in, st.LivePods)),
				cq.App("Faults", getF, cq.Bool(st.ListFails)),
				in.S(uid), adm.ReqTerm(in, &s.Req), fmt.Sprintf("%d%%N", size), cq.List(evals), status, answer)
			set.Cases = append(set.Cases, cq.Case{Term: term, Key: fmt.Sprintf("%s|%+v|%+v", doc, st, s.Req), Nontrivial: srv != nil,
				Tags: append(append([]string{}, s.Tags...), "format:"+format, fmt.Sprintf("deployed:%v", srv != nil)), Sample: sample, Uses: in.TakeUses()})
		}
		if checkMetrics && srv != nil {
			if fams, err := webhookserver.VerifGatherMetrics(srv); err != nil {
				set.GoFails = append(set.GoFails, cq.GoFail{What: "gathering the deployed server's metrics failed: " + err.Error(), Replay: map[string]interface{}{"document": doc}})
			} else {
				server := api.GetAPIVersion()
				for _, fam := range fams {
					if fam.GetName() != "pod_security_evaluations_total" {
						continue
					}
					for _, m := range fam.GetMetric() {
						for _, l := range m.GetLabel() {
							if l.GetName() != "policy_version" {
								continue
							}
							v := l.GetValue()
							ok := v == "latest" || v == "future"
							if pv, err := api.ParseVersion(v); !ok && err == nil && !server.Older(pv) {
								ok = true
							}
							if !ok {
								set.GoFails = append(set.GoFails, cq.GoFail{What: fmt.Sprintf("a server built by Setup exposes an evaluation series with policy_version=%q (server version %s): user-chosen namespace labels create series", v, server.String()),
									Replay: map[string]interface{}{"document": doc, "policy_version": v, "server_version": server.String()}})
							}
						}
					}
				}
			}
		}
		stub.Close()
	}
	return set, in
}

func typesUID(s string) types.UID { return types.UID(s) }
