//go:build verif

package streams

import (
	"fmt"
	"math/rand"
	"regexp"

	corev1 "k8s.io/api/core/v1"
	"k8s.io/pod-security-admission/api"
	"k8s.io/pod-security-admission/policy"
	"psaverif/internal/cq"
	"psaverif/internal/enc"
	"psaverif/internal/podgen"
)

var namesPhrase = regexp.MustCompile(`(?:containers?|volumes?) ((?:"[^"]*"(?:, )?)+)`)
var quoted = regexp.MustCompile(`"([^"]*)"`)

// NamesInDetail extracts the container / volume names a detail text lists: the
// quoted list following "container(s) " or "volume(s) " (every occurrence).
func NamesInDetail(detail string) []string {
	var out []string
	for _, m := range namesPhrase.FindAllStringSubmatch(detail, -1) {
		for _, q := range quoted.FindAllStringSubmatch(m[1], -1) {
			out = append(out, q[1])
		}
	}
	return out
}

// violator makes a pod violating a random subset of controls with shuffled,
// prefix-sharing and duplicate names.
func violator(r *rand.Rand) *corev1.Pod {
	p := podgen.Random(r).Pod
	names := []string{"app", "app-1", "app-10", "a", "ab", "abc", "app", "sidecar", "x-y", "init", "z9"}
	rename := func(cs []corev1.Container) {
		for i := range cs {
			cs[i].Name = names[r.Intn(len(names))]
		}
	}
	rename(p.Spec.InitContainers)
	rename(p.Spec.Containers)
	for i := range p.Spec.EphemeralContainers {
		p.Spec.EphemeralContainers[i].Name = names[r.Intn(len(names))]
	}
	for i := range p.Spec.Volumes {
		p.Spec.Volumes[i].Name = names[r.Intn(len(names))]
	}
	// push toward several simultaneous violations
	t := true
	for i := range p.Spec.Containers {
		if r.Intn(100) < 40 {
			sc := p.Spec.Containers[i].SecurityContext
			if sc == nil {
				sc = &corev1.SecurityContext{}
				p.Spec.Containers[i].SecurityContext = sc
			}
			switch r.Intn(5) {
			case 0:
				sc.Privileged = &t
			case 1:
				sc.Capabilities = &corev1.Capabilities{Add: []corev1.Capability{"NET_RAW", "SYS_ADMIN"}}
			case 2:
				pm := corev1.UnmaskedProcMount
				sc.ProcMount = &pm
			case 3:
				var z int64
				sc.RunAsUser = &z
			default:
				p.Spec.Containers[i].Ports = append(p.Spec.Containers[i].Ports, corev1.ContainerPort{HostPort: 8080})
			}
		}
	}
	if r.Intn(100) < 25 {
		p.Spec.HostNetwork = true
	}
	if r.Intn(100) < 25 {
		v := corev1.Volume{Name: names[r.Intn(len(names))]}
		podgen.SetVolumeSource(&v, []string{"hostPath", "nfs", "gitRepo"}[r.Intn(3)])
		p.Spec.Volumes = append(p.Spec.Volumes, v)
	}
	return p
}

// C13 builds the message stream.
func C13(seed int64, n int) (*cq.Set, *cq.Interner) {
	r := rand.New(rand.NewSource(seed))
	in := cq.NewInterner()
	o := NewPodObserver()
	set := &cq.Set{Stream: "c13", Seed: seed, Imports: "Model.Api Model.Pod Model.Checks Corr.C13", CaseTy: "c13_case", RunFn: "run_c13",
		Rule: "enumeration pods + n pods violating random subsets of controls with shuffled, prefix-sharing and duplicate container/volume names; each revision called directly (names parsed from the implementation's detail text by the harness) and the assembled evaluator at every boundary version x level with AggregateCheckResults texts; distinct by abstract pod; non-trivial = denied by at least one control"}
	if o.EvalErr != nil {
		set.GoFails = append(set.GoFails, cq.GoFail{What: "NewEvaluator failed: " + o.EvalErr.Error(), Replay: map[string]interface{}{}})
		return set, in
	}
	add := func(desc string, pod *corev1.Pod) {
		a := enc.Alpha(&pod.ObjectMeta, &pod.Spec)
		var checks []string
		denied := 0
		for _, rv := range o.Revs {
			res := safeCheck(rv.Check, pod)
			if !res.Allowed {
				denied++
			}
			checks = append(checks, cq.App("C13Check", in.S(rv.Fn), crTerm(in, res), in.StrList(NamesInDetail(res.ForbiddenDetail))))
		}
		var evals []string
		for _, v := range o.Versions {
			for _, l := range []api.Level{api.LevelBaseline, api.LevelRestricted, api.LevelPrivileged} {
				rs := o.safeEval(api.LevelVersion{Level: l, Version: v}, pod)
				agg := policy.AggregateCheckResults(rs)
				items := make([]string, len(rs))
				for i, x := range rs {
					items[i] = crTerm(in, x)
				}
				lt, _ := enc.Level(l)
				evals = append(evals, cq.App("C13Eval", lt, enc.Version(v), cq.List(items), in.S(agg.ForbiddenReason()), in.S(agg.ForbiddenDetail())))
			}
		}
		term := cq.App("C13Case", enc.PodTerm(in, a), cq.List(checks), cq.List(evals))
		set.Cases = append(set.Cases, cq.Case{Term: term, Key: PodKey(a), Nontrivial: denied > 0, Tags: []string{fmt.Sprintf("denied_revisions:%d", denied)},
			Sample: map[string]interface{}{"desc": desc, "pod": pod}, Uses: in.TakeUses()})
	}
	for i, nm := range podgen.Enumerate() {
		if i%3 == 0 { // a third of the enumeration (the full one is covered by C02)
			add(nm.Desc, nm.Pod)
		}
	}
	for i := 0; i < n; i++ {
		add("violator", violator(r))
	}
	return set, in
}
