//go:build verif

package streams

import (
	"context"
	"fmt"
	"math/rand"
	"sort"
	"time"

	admissionv1 "k8s.io/api/admission/v1"
	corev1 "k8s.io/api/core/v1"
	metav1 "k8s.io/apimachinery/pkg/apis/meta/v1"
	corev1listers "k8s.io/client-go/listers/core/v1"
	"k8s.io/client-go/tools/cache"
	"k8s.io/pod-security-admission/admission"
	"k8s.io/pod-security-admission/api"
	"k8s.io/pod-security-admission/policy"
	"psaverif/internal/adm"
	"psaverif/internal/apistub"
	"psaverif/internal/cq"
	"psaverif/internal/enc"
)

// srcRig: one Admission wired to the real client- and informer-backed sources of
// admission/namespace.go and admission/pods.go, over a stub API server and hand-fed informer caches.
type srcRig struct {
	stub     *apistub.Stub
	nsCache  cache.Indexer
	podCache cache.Indexer
	ll       *adm.LongLived
}

func newSrcRig(cfg *adm.CfgSpec, ev policy.Evaluator, nsLister, podsInformer bool) (*srcRig, error) {
	rig := &srcRig{stub: apistub.New(),
		nsCache:  cache.NewIndexer(cache.MetaNamespaceKeyFunc, cache.Indexers{}),
		podCache: cache.NewIndexer(cache.MetaNamespaceKeyFunc, cache.Indexers{cache.NamespaceIndex: cache.MetaNamespaceIndexFunc})}
	client := rig.stub.Client()
	var getter admission.NamespaceGetter
	if nsLister {
		getter = admission.NamespaceGetterFromListerAndClient(corev1listers.NewNamespaceLister(rig.nsCache), client)
	} else {
		getter = admission.NamespaceGetterFromClient(client)
	}
	var lister admission.PodLister
	if podsInformer {
		lister = admission.PodListerFromInformer(corev1listers.NewPodLister(rig.podCache))
	} else {
		lister = admission.PodListerFromClient(client)
	}
	ll, err := adm.NewLongLivedWith(cfg, ev, adm.NullMetrics{}, getter, lister)
	if err != nil {
		rig.stub.Close()
		return nil, err
	}
	rig.ll = ll
	return rig, nil
}

// srcState: what the caches and the server hold for one namespace, and the failure script of the next request.
type srcState struct {
	Name                  string
	CachedNS, LiveNS      *map[string]string // nil: absent
	CachedPods, LivePods  []*corev1.Pod
	GetFails              string // non-empty: the live GET fails with this message
	ListFails             bool
	LaterPageFails        bool // a second LIST request, should one ever be made, fails
	NSLister, PodInformer bool
}

func (rig *srcRig) load(st *srcState) {
	if o, ok, _ := rig.nsCache.GetByKey(st.Name); ok {
		rig.nsCache.Delete(o)
	}
	if st.CachedNS != nil {
		rig.nsCache.Add(&corev1.Namespace{ObjectMeta: metav1.ObjectMeta{Name: st.Name, Labels: *st.CachedNS, ResourceVersion: adm.LabelsRV(*st.CachedNS), UID: "ns-uid"}})
	}
	olds, _ := rig.podCache.ByIndex(cache.NamespaceIndex, st.Name)
	for _, o := range olds {
		rig.podCache.Delete(o)
	}
	for _, p := range st.CachedPods {
		q := p.DeepCopy()
		q.Namespace = st.Name
		rig.podCache.Add(q)
	}
	rig.stub.Set(func(s *apistub.Stub) {
		delete(s.Namespaces, st.Name)
		if st.LiveNS != nil {
			s.Namespaces[st.Name] = *st.LiveNS
		}
		var ps []*corev1.Pod
		for _, p := range st.LivePods {
			q := p.DeepCopy()
			q.Namespace = st.Name
			ps = append(ps, q)
		}
		s.Pods[st.Name] = ps
	})
	gf, lf := map[int]string{}, map[int]string{}
	if st.GetFails != "" {
		gf[1] = st.GetFails
	}
	if st.ListFails {
		lf[1] = "injected list failure"
	}
	if st.LaterPageFails {
		lf[2] = "injected continue failure"
	}
	rig.stub.Arm(gf, lf)
}

func labelsList(in *cq.Interner, name string, ls *map[string]string) string {
	if ls == nil {
		return "[]"
	}
	return cq.List([]string{cq.Pair(in.S(name), enc.Labels(in, *ls))})
}

func podsTerm(in *cq.Interner, ps []*corev1.Pod) string {
	sorted := append([]*corev1.Pod{}, ps...)
	items := make([]string, len(sorted))
	for i, p := range sorted {
		items[i] = enc.PodTerm(in, enc.Alpha(&p.ObjectMeta, &p.Spec))
	}
	return cq.List(items)
}

func tinyPods(r *rand.Rand, n int, lvs []api.LevelVersion) []*corev1.Pod {
	out := make([]*corev1.Pod, n)
	for i := range out {
		p := &corev1.Pod{ObjectMeta: metav1.ObjectMeta{Name: fmt.Sprintf("p-%04d", i)}}
		if len(lvs) > 0 && r.Intn(100) < 30 {
			lv := lvs[r.Intn(len(lvs))]
			p.Annotations = map[string]string{"m/" + lv.String(): pick(r, []string{"reason-a", "reason-b"})}
		}
		out[i] = p
	}
	return out
}

// Src: histories of requests through the real namespace getter and pod lister; the cluster state
// (caches and server) changes between the requests of a history.
func Src(seed int64, n int, pf string) (*cq.Set, *cq.Interner) {
	r := rand.New(rand.NewSource(seed))
	in := cq.NewInterner()
	set := &cq.Set{Stream: "src", Seed: seed, Imports: "Model.Api Model.Pod Model.Checks Model.Admission Model.Wire Model.Sources Corr.Adm Corr.Src", CaseTy: "src_case", RunFn: "run_src " + pf,
		Rule: "histories of 20 requests through one long-lived Admission wired to the real NamespaceGetterFromClient / NamespaceGetterFromListerAndClient and PodListerFromClient / PodListerFromInformer over a stub API server (GET namespace, LIST pods with limit/continue) and hand-fed informer caches; before every request the caches and the server are set to a fresh state for the request's namespace (cached only, live only, both with different labels, neither, live GET failing, LIST failing, a later LIST page failing, live lists of more than 500 pods); the same request is also answered by a second rig built from scratch on that state; distinct by (wiring, state, request); non-trivial = at least one dependency call"}
	histories := n / 20
	if histories < 1 {
		histories = 1
	}
	for h := 0; h < histories; h++ {
		marker := h%4 != 3
		cfg := admCfg(r, false)
		inner := innerEvaluator(marker)
		nsLister, podsInformer := r.Intn(3) != 0, r.Intn(3) == 0
		if h == 0 && pf == "pf_src12" {
			podsInformer = false // the first history lists a namespace above the 3000-pod cap through the live lister
		}
		rig, err := newSrcRig(&cfg, inner, nsLister, podsInformer)
		if err != nil {
			set.GoFails = append(set.GoFails, cq.GoFail{What: "cannot build Admission: " + err.Error(), Replay: map[string]interface{}{"cfg": cfg}})
			continue
		}
		var hist []map[string]interface{}
		for i := 0; i < 20; i++ {
			var s scenario
			switch r.Intn(3) {
			case 0:
				s = podScenario(r, marker)
			case 1:
				s = controllerScenario(r, marker)
			default:
				s = namespaceScenario(r, marker)
			}
			huge := pf == "pf_src12" && h == 0 && i == 3
			big := !podsInformer && marker && (i == 7 || i == 14 || huge)
			if big {
				// a tightening namespace update in a non-exempt namespace: the dry run lists more than 500 pods
				s = namespaceScenario(r, marker)
				lv := api.LevelVersion{Level: api.LevelBaseline, Version: api.LatestVersion()}
				s.LVs = []api.LevelVersion{lv}
				s.Req = adm.ReqSpec{Group: "", Resource: "namespaces", Namespace: "big-ns", Name: "big-ns", User: "alice", Op: "UPDATE", Wire: i == 7,
					Object: adm.ObjSpec{Kind: "namespace", NSName: "big-ns", Labels: map[string]string{api.EnforceLevelLabel: "baseline"}},
					Old:    adm.ObjSpec{Kind: "namespace", NSName: "big-ns", Labels: map[string]string{api.EnforceLevelLabel: "privileged"}}}
				s.World = adm.WorldSpec{}
				s.Tags = []string{"req:namespace", "op:UPDATE", "object:namespace", "listed:>500"}
			}
			s.Cfg, s.Marker = cfg, marker
			s.World.ExpireAfter, s.Req.DeadlineIn = nil, nil
			name := s.Req.Namespace
			st := srcState{Name: name, NSLister: nsLister, PodInformer: podsInformer, ListFails: s.World.ListErr, LaterPageFails: r.Intn(100) < 30}
			other := admLabels(r, 40)
			lab := s.World.NSLabels
			if lab == nil {
				lab = map[string]string{}
			}
			switch x := r.Intn(100); {
			case x < 25: // cached only
				st.CachedNS = &lab
			case x < 50: // live only
				st.LiveNS = &lab
			case x < 75: // both, different labels
				st.CachedNS, st.LiveNS = &lab, &other
			case x < 85: // neither
			case x < 93: // not cached, the live GET fails
				st.LiveNS, st.GetFails = &lab, "injected get failure"
			default: // cached, and the live GET would fail
				st.CachedNS, st.GetFails = &lab, "injected get failure"
			}
			if s.World.NSErr && st.CachedNS == nil {
				st.GetFails = "injected get failure"
			}
			pods := s.World.Pods
			if len(pods) > 5 {
				pods = pods[:5]
			}
			if big {
				pods = tinyPods(r, 501+r.Intn(200), s.LVs)
				st.ListFails, st.LaterPageFails = false, i == 14 || r.Intn(2) == 0
			}
			if huge {
				// 3000 compliant replicas of one ReplicaSet, then violating bare pods: beyond the cap, so the
				// answer must say how many of how many were checked, and the bare pods must all be reported
				pods = nil
				tr := true
				for k := 0; k < 3000; k++ {
					pods = append(pods, &corev1.Pod{ObjectMeta: metav1.ObjectMeta{Name: fmt.Sprintf("a-replica-%04d", k), OwnerReferences: []metav1.OwnerReference{{UID: "rs", Controller: &tr}}}})
				}
				for k := 0; k < 40+r.Intn(60); k++ {
					pods = append(pods, &corev1.Pod{ObjectMeta: metav1.ObjectMeta{Name: fmt.Sprintf("z-bare-%03d", k), Annotations: map[string]string{"m/baseline:latest": "reason-z"}}})
				}
				st.LaterPageFails = false
			}
			placement := r.Intn(3)
			if len(pods) > 100 {
				placement = 2
			}
			switch placement {
			case 0:
				st.CachedPods, st.LivePods = pods, pods
			case 1:
				st.CachedPods, st.LivePods = pods, nil
				if len(pods) > 1 {
					st.LivePods = pods[1:]
				}
			default:
				st.LivePods = pods
				if len(pods) > 2 && len(pods) < 10 {
					st.CachedPods = pods[:2]
				}
			}
			rig.load(&st)
			long := serveLogged(rig.ll, &s.Req)
			gets, lists := rig.stub.Counts()
			_, listFailures := rig.stub.Failures()
			fresh := adm.Obs{}
			if frig, err := newSrcRig(&cfg, inner, nsLister, podsInformer); err == nil {
				frig.load(&st)
				fresh = serveLogged(frig.ll, &s.Req)
				frig.stub.Close()
			}
			step := map[string]interface{}{"position": i, "state": st, "request": s.Req, "live_get_requests": gets, "live_list_requests": lists, "failed_list_requests": listFailures}
			hist = append(hist, step)
			if long.Panic != "" || long.Resp == nil || fresh.Resp == nil {
				set.GoFails = append(set.GoFails, cq.GoFail{What: "Validate panicked or did not answer through the real sources: " + long.Panic + fresh.Panic, Replay: map[string]interface{}{"cfg": cfg, "history": hist}})
				continue
			}
			var evals []string
			seen := map[string]bool{}
			cand := append([]*corev1.Pod{}, scenarioPods(&s)...)
			if len(st.CachedPods)+len(st.LivePods) <= 100 {
				// (for the long lists of marker pods the model's mirror of the marker evaluator answers; a
				// table of thousands of rows would make every lookup linear in the list)
				cand = append(append(cand, st.CachedPods...), st.LivePods...)
			}
			for _, p := range cand {
				for _, lv := range s.LVs {
					k := p.Name + "|" + lv.String()
					if seen[k] {
						continue
					}
					seen[k] = true
					rs := inner.EvaluatePod(lv, &p.ObjectMeta, &p.Spec)
					var bad []string
					for j, x := range rs {
						if t := crTerm(in, x); t != "cr_ok" {
							bad = append(bad, cq.App("bda", fmt.Sprint(j), t))
						}
					}
					lt, _ := enc.LV(lv)
					evals = append(evals, cq.App("eve", lt, in.S(p.Name), fmt.Sprint(len(rs)), cq.List(bad)))
				}
			}
			getF := "None"
			if st.GetFails != "" {
				getF = cq.App("Some", in.S(st.GetFails))
			}
			term := cq.App("SrcCase", adm.CfgTerm(in, &cfg), cq.Bool(marker), adm.ReqTerm(in, &s.Req),
				cq.App("Wiring", cq.Bool(nsLister), cq.Bool(podsInformer)),
				cq.App("Cluster", labelsList(in, name, st.CachedNS), labelsList(in, name, st.LiveNS), podsTerm(in, st.CachedPods), podsTerm(in, st.LivePods)),
				cq.App("Faults", getF, cq.Bool(st.ListFails)),
				cq.List(evals), adm.ObsTerm(in, &long), adm.RespTerm(in, fresh.Resp, fresh.Shared), cq.Bool(listFailures > 0))
			tags := append(append([]string{}, s.Tags...), fmt.Sprintf("wiring:lister=%v,informer=%v", nsLister, podsInformer), fmt.Sprintf("live-pods:%s", sizeClass(len(st.LivePods))))
			set.Cases = append(set.Cases, cq.Case{Term: term, Key: fmt.Sprintf("%v|%v|%v|%+v|%+v|%+v", marker, nsLister, podsInformer, cfg, s.Req, st), Nontrivial: len(long.Trace) > 0,
				Tags: tags, Sample: map[string]interface{}{"cfg": cfg, "history_so_far": append([]map[string]interface{}{}, hist...), "long_lived": long.Resp, "fresh": fresh.Resp, "trace": traceStrings(long.Trace)}, Uses: in.TakeUses()})
		}
		rig.stub.Close()
	}
	return set, in
}

func sizeClass(n int) string {
	switch {
	case n == 0:
		return "0"
	case n <= 5:
		return "1-5"
	case n <= 500:
		return "6-500"
	}
	return ">500"
}

// serveLogged answers req on ll and returns the observation with the dependency-call trace.
func serveLogged(ll *adm.LongLived, req *adm.ReqSpec) adm.Obs {
	done := make(chan adm.Obs, 1)
	go func() { done <- ll.ServeObs(context.Background(), req) }()
	select {
	case o := <-done:
		sort.SliceStable(o.Trace, func(i, j int) bool { return o.Trace[i].At.Before(o.Trace[j].At) })
		return o
	case <-time.After(30 * time.Second):
		return adm.Obs{Panic: "Validate did not return within 30s"}
	}
}

var _ = admissionv1.Create
