module psaverif

go 1.23.0

require (
	k8s.io/api v0.0.0-20241206182100-8b216f34d7ed
	k8s.io/apimachinery v0.0.0-20241206181643-8c60292e48e4
	k8s.io/pod-security-admission v0.0.0
)

require (
	github.com/fxamacker/cbor/v2 v2.7.0 // indirect
	github.com/go-logr/logr v1.4.2 // indirect
	github.com/gogo/protobuf v1.3.2 // indirect
	github.com/google/gofuzz v1.2.0 // indirect
	github.com/json-iterator/go v1.1.12 // indirect
	github.com/modern-go/concurrent v0.0.0-20180306012644-bacd9c7ef1dd // indirect
	github.com/modern-go/reflect2 v1.0.2 // indirect
	github.com/x448/float16 v0.8.4 // indirect
	golang.org/x/net v0.30.0 // indirect
	golang.org/x/text v0.19.0 // indirect
	gopkg.in/inf.v0 v0.9.1 // indirect
	k8s.io/component-base v0.0.0-20241206184758-96018783480f // indirect
	k8s.io/klog/v2 v2.130.1 // indirect
	k8s.io/utils v0.0.0-20241104100929-3ea5e8cea738 // indirect
	sigs.k8s.io/json v0.0.0-20241010143419-9aa6b5e7a4b3 // indirect
	sigs.k8s.io/structured-merge-diff/v4 v4.4.2 // indirect
	sigs.k8s.io/yaml v1.4.0 // indirect
)

replace k8s.io/pod-security-admission => /repo
