module psaverif

go 1.23.0

require (
	k8s.io/api v0.0.0-20241206182100-8b216f34d7ed
	k8s.io/apimachinery v0.0.0-20241206181643-8c60292e48e4
	k8s.io/apiserver v0.0.0-20241206185754-3658357fea9f
	k8s.io/client-go v0.0.0-20241206182637-8e21410d16a5
	k8s.io/component-base v0.0.0-20241206184758-96018783480f
	k8s.io/klog/v2 v2.130.1
	k8s.io/pod-security-admission v0.0.0
	sigs.k8s.io/yaml v1.4.0
)

require (
	cel.dev/expr v0.18.0 // indirect
	github.com/NYTimes/gziphandler v1.1.1 // indirect
	github.com/antlr4-go/antlr/v4 v4.13.0 // indirect
	github.com/asaskevich/govalidator v0.0.0-20190424111038-f61b66f89f4a // indirect
	github.com/beorn7/perks v1.0.1 // indirect
	github.com/blang/semver/v4 v4.0.0 // indirect
	github.com/cenkalti/backoff/v4 v4.3.0 // indirect
	github.com/cespare/xxhash/v2 v2.3.0 // indirect
	github.com/coreos/go-semver v0.3.1 // indirect
	github.com/coreos/go-systemd/v22 v22.5.0 // indirect
	github.com/davecgh/go-spew v1.1.2-0.20180830191138-d8f796af33cc // indirect
	github.com/emicklei/go-restful/v3 v3.11.0 // indirect
	github.com/felixge/httpsnoop v1.0.4 // indirect
	github.com/fsnotify/fsnotify v1.7.0 // indirect
	github.com/fxamacker/cbor/v2 v2.7.0 // indirect
	github.com/go-logr/logr v1.4.2 // indirect
	github.com/go-logr/stdr v1.2.2 // indirect
	github.com/go-openapi/jsonpointer v0.21.0 // indirect
	github.com/go-openapi/jsonreference v0.20.2 // indirect
	github.com/go-openapi/swag v0.23.0 // indirect
	github.com/gogo/protobuf v1.3.2 // indirect
	github.com/golang/protobuf v1.5.4 // indirect
	github.com/google/btree v1.0.1 // indirect
	github.com/google/cel-go v0.22.0 // indirect
	github.com/google/gnostic-models v0.6.8 // indirect
	github.com/google/go-cmp v0.6.0 // indirect
	github.com/google/gofuzz v1.2.0 // indirect
	github.com/google/uuid v1.6.0 // indirect
	github.com/grpc-ecosystem/go-grpc-prometheus v1.2.0 // indirect
	github.com/grpc-ecosystem/grpc-gateway/v2 v2.20.0 // indirect
	github.com/josharian/intern v1.0.0 // indirect
	github.com/json-iterator/go v1.1.12 // indirect
	github.com/mailru/easyjson v0.7.7 // indirect
	github.com/modern-go/concurrent v0.0.0-20180306012644-bacd9c7ef1dd // indirect
	github.com/modern-go/reflect2 v1.0.2 // indirect
	github.com/munnerz/goautoneg v0.0.0-20191010083416-a7dc8b61c822 // indirect
	github.com/pkg/errors v0.9.1 // indirect
	github.com/prometheus/client_golang v1.19.1 // indirect
	github.com/prometheus/client_model v0.6.1 // indirect
	github.com/prometheus/common v0.55.0 // indirect
	github.com/prometheus/procfs v0.15.1 // indirect
	github.com/spf13/cobra v1.8.1 // indirect
	github.com/spf13/pflag v1.0.5 // indirect
	github.com/stoewer/go-strcase v1.3.0 // indirect
	github.com/x448/float16 v0.8.4 // indirect
	go.etcd.io/etcd/api/v3 v3.5.16 // indirect
	go.etcd.io/etcd/client/pkg/v3 v3.5.16 // indirect
	go.etcd.io/etcd/client/v3 v3.5.16 // indirect
	go.opentelemetry.io/contrib/instrumentation/google.golang.org/grpc/otelgrpc v0.53.0 // indirect
	go.opentelemetry.io/contrib/instrumentation/net/http/otelhttp v0.53.0 // indirect
	go.opentelemetry.io/otel v1.28.0 // indirect
	go.opentelemetry.io/otel/exporters/otlp/otlptrace v1.28.0 // indirect
	go.opentelemetry.io/otel/exporters/otlp/otlptrace/otlptracegrpc v1.27.0 // indirect
	go.opentelemetry.io/otel/metric v1.28.0 // indirect
	go.opentelemetry.io/otel/sdk v1.28.0 // indirect
	go.opentelemetry.io/otel/trace v1.28.0 // indirect
	go.opentelemetry.io/proto/otlp v1.3.1 // indirect
	go.uber.org/multierr v1.11.0 // indirect
	go.uber.org/zap v1.27.0 // indirect
	golang.org/x/crypto v0.28.0 // indirect
	golang.org/x/exp v0.0.0-20240719175910-8a7402abbf56 // indirect
	golang.org/x/net v0.30.0 // indirect
	golang.org/x/oauth2 v0.23.0 // indirect
	golang.org/x/sync v0.8.0 // indirect
	golang.org/x/sys v0.26.0 // indirect
	golang.org/x/term v0.25.0 // indirect
	golang.org/x/text v0.19.0 // indirect
	golang.org/x/time v0.7.0 // indirect
	google.golang.org/genproto/googleapis/api v0.0.0-20240826202546-f6391c0de4c7 // indirect
	google.golang.org/genproto/googleapis/rpc v0.0.0-20240826202546-f6391c0de4c7 // indirect
	google.golang.org/grpc v1.65.0 // indirect
	google.golang.org/protobuf v1.35.1 // indirect
	gopkg.in/evanphx/json-patch.v4 v4.12.0 // indirect
	gopkg.in/inf.v0 v0.9.1 // indirect
	gopkg.in/natefinch/lumberjack.v2 v2.2.1 // indirect
	gopkg.in/yaml.v3 v3.0.1 // indirect
	k8s.io/kms v0.0.0-20241206185237-ab1750fa1ba2 // indirect
	k8s.io/kube-openapi v0.0.0-20241105132330-32ad38e42d3f // indirect
	k8s.io/utils v0.0.0-20241104100929-3ea5e8cea738 // indirect
	sigs.k8s.io/apiserver-network-proxy/konnectivity-client v0.31.0 // indirect
	sigs.k8s.io/json v0.0.0-20241010143419-9aa6b5e7a4b3 // indirect
	sigs.k8s.io/structured-merge-diff/v4 v4.4.2 // indirect
)

replace k8s.io/pod-security-admission => /repo
