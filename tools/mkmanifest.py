#!/usr/bin/env python3
"""Writes MANIFEST.json from tools/props.py (claimed properties) so the two never drift."""
import json, os, sys
sys.path.insert(0, os.path.dirname(os.path.abspath(__file__)))
from props import PROPS, NOT_APPLICABLE, HOOK_COMMITS

V = "/verif"
checks = []
for pid in sorted(PROPS):
    c = PROPS[pid]
    checks.append({
        "property_id": pid,
        "quick_cmd": "./run %s quick" % pid,
        "thorough_cmd": "./run %s thorough" % pid,
        "evidence_file": "%s/evidence/%s.json" % (V, pid),
        "replay_cmd_template": "cat {path}",
        "engine": "coq-proof+correspondence",
        "level_claimed": {"category": "proof", "text": c["level_text"], "design_ref": c.get("design_ref", "DESIGN.md section 7 (%s)" % pid)},
        "level_note": c["level_note"],
        "technique": c.get("technique", "Coq 8.16 theorem over a Gallina model of the code (all inputs, by induction/case analysis), model tied to /repo by per-run differential correspondence (vm_compute on implementation-observed cases) and tables regenerated from source"),
    })
m = {
    "version": 1,
    "setup_cmd": "./run setup",
    "hooks": {
        "guard": "verif",
        "enable": "go build -tags verif (the harness module /verif/harness replaces k8s.io/pod-security-admission => /repo and is always built with -tags verif)",
        "baseline_off_cmd": "cd /repo && GOFLAGS=-mod=mod GOPROXY=off GOSUMDB=off go test -vet=off -count=1 ./...",
        "source_commits": HOOK_COMMITS,
        "add_only": True,
    },
    "engines": [{"name": "coq-proof+correspondence", "path": "/verif/tools/runner.py",
                 "serves_properties": sorted(PROPS),
                 "kind_free_text": "Coq 8.16.1 development under /verif/coq (model, spec, theorems); Go harness under /verif/harness regenerates tables from /repo and produces correspondence cases evaluated inside Coq"}],
    "checks": checks,
    "not_applicable": NOT_APPLICABLE,
    "notes": "See DESIGN.md. Every check: rebuilds the harness against /repo's working tree, regenerates coq/theories/Gen, re-makes the Coq development, checks Print Assumptions of every theorem in Properties/<id>.v, runs the implementation on generated inputs and evaluates the property relation P_k and the model on them inside Coq.",
}
json.dump(m, open(os.path.join(V, "MANIFEST.json"), "w"), indent=1)
print("wrote MANIFEST.json with", len(checks), "checks;", len(NOT_APPLICABLE), "not applicable")
