#!/bin/sh
# usage: regress_seeded.sh [pattern]   - applies every /verif/seeded/<id> patch (matching pattern) to /repo in turn,
# runs the quick check of its target property, reverts, and prints one line per patch.  Needs a clean /repo.
pat=${1:-C}
cd /repo || exit 2
git diff --quiet || { echo "/repo has local changes; refusing"; exit 2; }
for d in /verif/seeded/${pat}*; do
  id=$(basename $d); p=${id%-*}
  git apply $d/patch.diff 2>/dev/null || { echo "$id: PATCH DOES NOT APPLY"; continue; }
  out=$(cd /verif && ./run $p quick 2>&1 | grep -v "^KNOWN-FINDING" | grep "^OK\|^VIOLATION" | sed 's/ tier=quick.*//; s#replay=/verif/replays/##' | tr '\n' ' ')
  git checkout -- .
  echo "$id: $out"
done
