"""Per-property configuration of the runner: which harness streams feed the
violation search / correspondence, with which budgets."""

HOOK_COMMITS = ["f4219a2"]

PROPS = {
    "C05": {
        "streams": [{"name": "c05", "n_quick": 3000, "n_thorough": 60000}],
        "level_text": "Theorems C05_* (Properties/C05.v) prove, for every label map, default policy and string, that the model of api.PolicyToEvaluate / ParseVersion / ParseLevel / Version.String satisfies the independent specification Spec/P05.v (absent->default, enforce fail-closed, audit/warn fail-open, exact error list, warn-follows-enforce, canonical version grammar with the 64-bit Atoi bound, print/parse round trip). The model is tied to the code by running the real functions on a systematic single-label enumeration, parser string products and random label maps, and evaluating both the spec relation and the model on each observed result inside Coq.",
        "level_note": "Trusted: Coq kernel; the handwritten model Model/Api.v (correspondence is sampling: ~5k cases quick); Spec/P05.v as reading of the property; Go harness encoding. No axioms (Print Assumptions: closed).",
        "assumptions": ["labels are a Go map (unique keys); the default policy carries valid levels",
                        "strconv.Atoi range is that of a 64-bit int"],
    },
}

# properties not yet claimed (kept current as checks are added)
NOT_APPLICABLE = [
    {"property_id": p, "reason": "check under construction in this session: model/theorems not yet committed (see DESIGN.md section 7 for the planned statement)"}
    for p in ["C01","C02","C03","C04","C06","C07","C08","C09","C10","C11","C12","C13","C14","C15","C16","C17","C18","C19","C20"]
    if p not in PROPS
]
