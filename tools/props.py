"""Per-property configuration of the runner: which harness streams feed the
violation search / correspondence, with which budgets."""

HOOK_COMMITS = ["f4219a2", "c408641", "a451f59", "6111423", "e993c2a", "6be90ee", "ae02581"]

PROPS = {
    "C05": {
        "streams": [{"name": "c05", "n_quick": 3000, "n_thorough": 60000}],
        "level_text": "Theorems C05_* (Properties/C05.v) prove, for every label map, default policy and string, that the model of api.PolicyToEvaluate / ParseVersion / ParseLevel / Version.String satisfies the independent specification Spec/P05.v (absent->default, enforce fail-closed, audit/warn fail-open, exact error list, warn-follows-enforce, canonical version grammar with the 64-bit Atoi bound, print/parse round trip). The model is tied to the code by running the real functions on a systematic single-label enumeration, parser string products and random label maps, and evaluating both the spec relation and the model on each observed result inside Coq.",
        "level_note": "Trusted: Coq kernel; the handwritten model Model/Api.v (correspondence is sampling: ~5k cases quick); Spec/P05.v as reading of the property; Go harness encoding. No axioms (Print Assumptions: closed).",
        "assumptions": ["labels are a Go map (unique keys); the default policy carries valid levels",
                        "strconv.Atoi range is that of a 64-bit int"],
    },
}

PROPS["C19"] = {
    "streams": [{"name": "c19", "n_quick": 1500, "n_thorough": 40000}],
    "level_text": "Theorems C19_* (Properties/C19.v): for every allow-list record, every registered revision name, every pod and every check table: with the switch off hostUsers is never read (results identical for nil/true/false); with it on, pods without hostUsers=false are unaffected, and for hostUsers=false exactly the revisions of runAsNonRoot, runAsUser and procMount return 'allowed' while every other revision returns the same result (text included); lifted to the assembled evaluator for any table, plus monotonicity. Tied to the code by calling all 25 registered revisions on each generated pod's three hostUsers variants with policy.RelaxPolicyForUserNamespacePods off and on, and evaluating P19 and the model on the observed vectors in Coq.",
    "level_note": "Trusted: Coq kernel; Model/Checks.v (25 revision bodies, correspondence compares full result text); harness alpha encoding; the process-wide atomic switch is toggled sequentially (its atomicity is runtime, observed only). No axioms.",
    "assumptions": ["the registered revisions are the 25 bound in Model/Checks.check_dictionary (all_bound obligation)"],
}

PROPS["C04"] = {
    "streams": [{"name": "c04", "n_quick": 800, "n_thorough": 20000}],
    "level_text": "Theorems C04_* (Properties/C04.v), for ANY check set with opaque check functions: validate_checks accepts exactly the well-formed sets (unique ids, level baseline/restricted, non-empty strictly increasing revisions none unset or 'latest', overrides only by restricted checks and only of absent or baseline ids); for well-formed sets with a single major, resolve = expected as an equality of (id, revision) lists - per check the revision of greatest minimum version <= V, baseline block first in byte-wise id order, restricted = non-overridden baseline + restricted, privileged = nothing; 'latest' and any newer version behave as the newest registered one and never as an empty policy. Tied to the code by running random valid and malformed marker check sets through the real policy.NewEvaluator and EvaluatePod at boundary versions and evaluating P04 and the model on the observed marker sequences in Coq.",
    "level_note": "Trusted: Coq kernel; Model/Registry.v as model of policy/registry.go (correspondence by sampling: ~1200 check sets quick); the hypothesis majors_one (R1 in DESIGN.md: the real populate/inflateVersions loops do not terminate for a MinimumVersion whose major is not 1, so such sets are never generated). No axioms.",
    "assumptions": ["every MinimumVersion has major 1 (R1)"],
}

ADM_NOTE = "Trusted: Coq kernel; Model/Admission.v + Model/Namespace.v as model of admission/admission.go and response.go (correspondence compares allow bit, code, reason, message, warnings, audit annotations, shared-object identity and the full effect trace of dependency/evaluator/metrics calls); apimachinery status construction beyond code/reason/causes and klog are not modelled; the evaluator is a parameter (real registry and a marker evaluator, both answered from a table of direct calls). No axioms."

def adm_prop(stream, nq, nt, text, extra_streams=None, partial="", assumptions=None):
    d = {"streams": [{"name": stream, "n_quick": nq, "n_thorough": nt}] + (extra_streams or []),
         "level_text": text, "level_note": ADM_NOTE, "assumptions": assumptions or []}
    if partial:
        d["partial"] = partial
    return d

POD_NOTE = "Trusted: Coq kernel; Model/Checks.v, Model/Registry.v (models of policy/check_*.go and registry.go; correspondence on generated pods compares allow bits per revision and per (level, version)); Spec/PSS.v as transcription of the Pod Security Standards; harness alpha encoding (checked against gamma by the frame check). Check table and allow-lists are regenerated from the source each run (hook H1 + reflection) and enter the theorems only through computed side conditions. No axioms."

PROPS["C02"] = {
    "streams": [{"name": "c02", "n_quick": 1200, "n_thorough": 30000}],
    "level_text": "C02_revisions: each of the 25 registered revision functions decides exactly its row of the standard (Spec/PSS.v), for all pods and any allow-lists equal as sets to the standard's. C02_standard(_generic): for ANY table whose resolution at every published minor names the standard's revisions (computed side condition on the regenerated table) and every API-valid pod, every level and every version v1.0..latest and beyond, the evaluator's verdict equals PSS.compliant; C02_hypotheses_needed shows the validity/relaxation hypotheses are forced. The implementation is compared with the standard itself (P02) and with the model on an enumeration of single-field edits x {pod, init, container, ephemeral} plus random pods at every boundary version; the frame clause (unrelated fields never change a verdict) is checked by gamma(alpha(pod)) on pods with junk in unmodelled fields.",
    "level_note": POD_NOTE,
    "assumptions": ["API-valid pods: one source per volume; no capabilities/seccompProfile on os=windows pods", "R4: seccomp container annotation keys range over the pod's container names"],
}
PROPS["C03"] = {
    "streams": [{"name": "c03", "n_quick": 1200, "n_thorough": 30000}],
    "level_text": "C03_generic: in any well-formed table where each overriding restricted revision implies (on valid pods) the baseline revision it replaces, restricted-allowed implies baseline-allowed; C03_levels_ordered: the shipped instance for every version and switch setting (override pairs of the regenerated table checked by computation against the five proved implication lemmas); C03_privileged; C03_relaxation_safe; C03_hypotheses_needed (two-source volume). On the implementation, P03 is evaluated on every generated pod at every boundary version.",
    "level_note": POD_NOTE,
    "assumptions": ["API-valid pods (one source per volume; Linux-only fields unset on os=windows)"],
}
PROPS["C20"] = {
    "streams": [{"name": "c20", "n_quick": 0, "n_thorough": 0}],
    "level_text": "Finite domain, proved by computation with the bound in the statement: for every file under test/testdata (regenerated into Gen/Fixtures.v each run), once volume defaulting is applied, pass fixtures are allowed and fail fixtures are denied by the control they are named for or by one overriding it (C20_fixtures); the clause is not vacuous (C20_needs_defaulting); serialized files and in-memory generators (hook H4) give the same abstract pods (C20_same_pods); every control in force at every level x minor has a fail fixture (C20_complete). The real evaluator and every control in force are also run on all fixtures (exhaustive) and P20 evaluated on the results.",
    "level_note": POD_NOTE + " API-server defaulting (empty volume source -> emptyDir) is modelled in Spec/P20.v; byte-level YAML equality is the repository's own TestFixtures.",
    "assumptions": ["strict YAML decoding by sigs.k8s.io/yaml"],
}
PROPS["C01"] = adm_prop("c01", 1500, 40000, "C01_verdict: for every configuration, request, oracle world and every evaluator that allows at privileged (true of any registry: C03_privileged), a non-exempt pod CREATE or significant UPDATE is allowed iff the evaluator allows the pod at the enforce level:version the labels and defaults resolve to (spec-side resolution); denials are 403 Forbidden naming level:version; the enforce-policy annotation names the level (and below privileged the version). C01_verdict_needs_hyp documents why the evaluator hypothesis is needed (fully-privileged short circuit).")
PROPS["C06"] = adm_prop("c06", 1500, 40000, "C06_exact: an exemption test is true iff the value is non-empty and Leibniz-equal to a list entry; C06_exemptions (P06): an exempt marking names a matching dimension, is allowed, unevaluated and counted once; whenever the request would have been evaluated without exemptions it is marked; when no dimension matches exactly the response equals the one with all exemption lists emptied; C06_dryrun: dry runs evaluate exactly the non-exempt-runtime-class pods. The implementation is run twice per case (with and without exemptions) on hits and near-misses (prefix, case change, cross-list, empty).")
PROPS["C07"] = adm_prop("c07", 1500, 40000, "C07_faults (P07) for every oracle answer: pod requests fail closed at every call site (500 on lookup failure, 400 on decode/wrong type/nil for object and old object) and are allowed only if ignored, exempt, fully privileged with valid labels, insignificant, or evaluated and compliant; controller requests fail open with an error annotation and one fatal error metric; namespace decode failures deny, list failure and expiry never block; malformed labels never skip evaluation and are flagged. F4 (nil object panics the controller path) was found by this check and repaired (fix: commit). Stream c07src drives the real client- and informer-backed NamespaceGetter/PodLister (admission/namespace.go, admission/pods.go) over a stub API server with failing GET/LIST requests and lists of more than 500 pods; Model/Sources.v computes the oracle answers from the cluster state. Stream c07hist: 40-request histories through one long-lived Admission (all fault classes), each answer compared with a fresh instance's: fault handling must not depend on what was served before.",
    extra_streams=[{"name": "c07src", "n_quick": 400, "n_thorough": 8000}, {"name": "c07hist", "n_quick": 400, "n_thorough": 8000}])
PROPS["C08"] = adm_prop("c08", 1500, 40000, "C08_audit_warn (P08) for an arbitrary evaluator: the allow bit is the enforce verdict alone; an allowed request carries the warn warning iff the object violates warn; audit-violations is present iff it violates audit, allowed or denied; each names its own level:version; cache soundness (every cached lookup equals the evaluator on that key) for all coinciding and partially coinciding triples.")
PROPS["C09"] = adm_prop("c09", 1200, 30000, "C09_never_denied for all faults; C09_controllers (P09): enforce is never applied (no enforce metric, no enforce-policy annotation), no findings without template or on subresources, and warnings/audit-violations equal those of the bare pod of the same template under the same audit/warn policy. All nine Go types are exercised (CronJob nesting, optional ReplicationController template, Pod under a controller resource).")
PROPS["C10"] = adm_prop("c10", 1500, 40000, "C10_significance_characterised, C10_insignificant_allowed (allowed, unevaluated, whatever the policy), C10_updates_and_subresources (P10): significant updates answer like the CREATE, any subresource outside the 8 ignored names answers like no subresource; the 8 ignored ones are allowed with an empty trace.")
PROPS["C11"] = adm_prop("c11", 1500, 40000, "C11_namespace (P11): create rejected (422, one cause per bad label) iff labels invalid; update iff new labels invalid and not invalid in the same way before; never rejected because of pods; the lister is called exactly when the dry run is required; the warnings equal the specification's report (one line per distinct violation text with least pod name and exact count, sorted); C11_order_independent; C11_counts_add_up. The clause 'one line per distinct set of violated controls' is evaluated separately (stream c11cs) and is a KNOWN FINDING (F3).",
    extra_streams=[{"name": "c11cs", "n_quick": 500, "n_thorough": 10000}])
PROPS["C12"] = adm_prop("c12", 1500, 40000, "C12_dry_run (P12) for any cap, timeout, population, ownership pattern and expiry index: at most cap evaluations, in the prioritised order (one pod per controller before siblings: C12_prioritise), the truncation line says exactly k of n, and the report is exactly that of the pods checked (C12_warnings_exact); C12_deadline: the lister's deadline is min(request deadline, now + min(timeout, remaining/2)). Real cap 3000/1s and small caps via hook H3; the deadline seen by the lister is checked on the Go side against a scheduling-proof interval. Stream c12src: the real PodListerFromClient over a stub API server that honours limit/continue, including a namespace of 3000 replicas plus bare violating pods (above the cap): the answer must say how many of how many were checked and report exactly the checked pods' violations. Within stream c12, a third of the namespace requests that reach the dry run are also POSTed to HandleValidate with and without ?timeout=: the deadline the lister sees must be bounded by half of that timeout.",
    extra_streams=[{"name": "c12src", "n_quick": 100, "n_thorough": 2000}],
    partial="that the Go runtime fires the timer and stops within one second of wall time is not expressible in the model; proved: deadline arithmetic and that the loop stops at the first observation of expiry")

PROPS["C13"] = {
    "streams": [{"name": "c13", "n_quick": 500, "n_thorough": 15000}, {"name": "c13adm", "n_quick": 800, "n_thorough": 20000}],
    "level_text": "C13_reasons: every denying built-in revision gives a non-empty reason that does not even contain the placeholder; C13_aggregate + C13_eval + C13_revisions_once: for the regenerated table (computed order condition) the evaluator returns at (level, version) exactly the standard's revisions, each once, in the fixed table order whatever the pod, and the aggregate texts list the denying ones in that order; C13_names: the names a detail lists are offenders, every explicit offender is listed, implicit ones when they are the only cause, volumes exactly; C13_detail_lists_names: the rendered text contains the quoted list. On the implementation the names are parsed out of the real detail text and P13 is evaluated on pods violating random subsets of controls with duplicate and prefix-sharing names.",
    "level_note": POD_NOTE + " The harness regexp that extracts the quoted name list from a detail string is trusted; names containing a double quote are outside the hypothesis (DNS labels).",
    "assumptions": ["container and volume names contain no double quote (API validation: DNS labels)"],
}
PROPS["C14"] = {
    "streams": [{"name": "c14", "n_quick": 400, "n_thorough": 10000, "race": True}],
    "level_text": "C14_revision_map_order / C14_evaluator_map_order: for every registered revision and the assembled evaluator (any table), the full result - allow bit, reason and detail text, in order - is identical for every iteration order of the annotation map (any permutation of an association list with unique keys); C14_set_order / C14_sort_order: every internal set and sort is a function of the set/multiset of inserted elements. Purity is by construction in the model; on the implementation each pod is evaluated 8 times and from 16 goroutines under the race detector, deep-compared before and after, and the model must reproduce the exact text from a pod whose annotations are listed in a shuffled order.",
    "level_note": POD_NOTE,
    "partial": "in-place mutation of the input and data races are facts about the Go runtime that a pure model cannot exhibit: they are observed (DeepEqual before/after, -race build), not proved",
    "assumptions": ["Go maps have unique keys"],
}

PROPS["C15"] = {
    "streams": [{"name": "c15", "n_quick": 800, "n_thorough": 20000, "race": True}, {"name": "c15src", "n_quick": 400, "n_thorough": 8000}],
    "level_text": "In the model the admission library is a function of (configuration, request, the oracle answers it reads); the only process-wide state it touches is the five shared response objects and the metric counters. C15_histories: for every history and every initial state each response equals the solo response and the shared store is untouched; C15_shared_constant: every non-fresh response the library hands out is one of the five constants; C15_interleavings: any reordering of a history leaves the same counters. On the implementation: 40-request histories through one long-lived Admission (real PrometheusRecorder) vs freshly constructed ones, sequentially and while 16 goroutines replay the history, under the race detector, with the five shared objects snapshotted after every request; every ListPods context deadline is checked against what the request alone accounts for. Stream c15src: histories through the real NamespaceGetterFromListerAndClient / PodListerFromClient / PodListerFromInformer over a stub API server whose state changes between requests: each answer must equal the one of a rig built from scratch on the present state and the model's answer on world_of(state) (C15_sources_present_state).",
    "level_note": ADM_NOTE + " Finding F1 (webhook wrote into the shared objects) was visible here and is repaired.",
    "partial": "race freedom at the Go memory-model level is observed by the race detector and by deep comparison, not proved; the theorem covers the action-level model in which the library has no hidden state",
    "assumptions": ["the Evaluator handed to Admission is a function of its arguments (C14 for the shipped registry)"],
}
PROPS["C16"] = {
    "streams": [{"name": "c16", "n_quick": 400, "n_thorough": 5000, "race": True}],
    "level_text": "C16_exchange / C16_classify: the handler model answers a well-formed v1 review with 200, its own uid and the library's verdict, and every other class (no body, >= 3 MiB -> 413, content type other than exactly application/json, undecodable, other kind, review without request) with an HTTP error and no review; C16_concurrent + C16_progress: for any number of handler threads and ANY interleaving of their atomic steps over the five shared response objects, every encoded uid is the thread's own and the shared objects are never written; C16_unfixed_refuted / C16_unfixed_dirty_store: the pre-fix handler violates both (finding F1). The real HandleValidate is driven through hook H2: all classes incl. sizes 3MiB-1/3MiB/3MiB+1, and 8 concurrent clients x 400 reviews answered from shared responses under the race detector. F1 and F2 were found here and repaired by fix: commits.",
    "level_note": "Trusted: Coq kernel; Model/Webhook.v (classification + action-level thread model with atomic steps copy / set uid / encode); net/http, the apimachinery universal deserializer and json encoding are exercised, not modelled; the admission delegate is the model of C01-C12. No axioms.",
    "partial": "the Go memory model and net/http's per-connection goroutines are runtime: observed under -race and by checking every uid",
    "assumptions": [],
}
PROPS["C18"] = {
    "streams": [{"name": "c18", "n_quick": 400, "n_thorough": 10000, "race": True}, {"name": "c18adm", "n_quick": 1200, "n_thorough": 30000}, {"name": "c18e2e", "n_quick": 240, "n_thorough": 4000}, {"name": "c18hist", "n_quick": 400, "n_thorough": 8000}],
    "level_text": "Admission half (C18_admission_metrics'): for every request and oracle world, an evaluated pod request records exactly one enforce evaluation whose decision matches the response, an exempted request exactly one exemption and nothing else, a request failing at a call site one fatal error, ignored requests nothing, audit/warn denials iff reported. Recorder half: C18_get_exact / C18_counts (each series equals its number of recordings since the last reset), C18_exact_any_order (any permutation/interleaving of recordings gives the same counters), C18_reset, C18_bucket + C18_bucket_cardinality + C18_request_labels (policy_version is 'latest', 'future' or v1.k with k <= server minor: at most minor+3 values whatever labels users write). Real PrometheusRecorder in a fresh registry: record/reset histories gathered and compared; 16 goroutines x 4000 recordings with exact totals; adversarial versions up to v1.(2^40).",
    "level_note": "Trusted: Coq kernel; Model/Metrics.v (the CachedInc fast path and the slow path are one increment in the model; the correspondence covers cached and uncached label tuples); prometheus counter internals and the RWMutex are runtime. No axioms.",
    "partial": "atomicity of prometheus counters and of the RWMutex-guarded cache is runtime: observed under -race and by exact totals",
    "assumptions": ["policy versions come from ParseVersion (latest or v1.N) - C05/C17"],
}

PROPS["C17"] = {
    "streams": [{"name": "c17", "n_quick": 800, "n_thorough": 20000}, {"name": "c17e2e", "n_quick": 480, "n_thorough": 8000}],
    "level_text": "C17_load / C17_accept_iff: load accepts exactly the documents that are a PodSecurityConfiguration of a served version with no unknown or duplicated member at any level, and yields the stated values with omitted (or empty) defaults = privileged/latest; C17_version_independent / C17_unserved_rejected; C17_empty_is_all_defaults; C17_validate_iff: validation has no errors iff the six defaults parse and namespaces are unique DNS-1123 labels, runtime classes unique DNS-1123 subdomains, user names non-empty and unique (validators modelled character by character, incl. the 63/253 limits); C17_errors_located; C17_chain: valid => ToPolicy succeeds and an unlabelled namespace resolves to exactly that policy. Each abstract document is rendered as JSON and as YAML, loaded by load.LoadFromData, validated, and an Admission is completed/validated from it and its default policy observed. Stream c17e2e is the full stack: the document through LoadFromData and cmd/webhook/server.Setup (production wiring over a stub API server), then AdmissionReview bodies through HandleValidate; the model composes load, to_policy, validate_config (Model/Deploy.v: deploy), world_of and handle; the relation reads the enforced policy and exemptions off the document by Spec/P17.v (C17_end_to_end).",
    "level_note": "Trusted: Coq kernel; Model/Config.v (strict decoding is modelled as 'no unknown / duplicated member' over an abstract member list; the real strict codec, YAML->JSON conversion and scheme conversion are exercised by the stream, not modelled); the harness renderers. Hypothesis well_tagged: an abstract 'unknown' member does not carry one of the four reserved names (an artefact of the abstraction; C17_accept_iff_needs_hyp). No axioms.",
    "assumptions": ["documents are JSON objects / YAML mappings with string and string-list values (other shapes are the 'malformed' class)"],
}

# properties not yet claimed (kept current as checks are added)
NOT_APPLICABLE = [
    {"property_id": p, "reason": "check under construction in this session: model/theorems not yet committed (see DESIGN.md section 7 for the planned statement)"}
    for p in ["C01","C02","C03","C04","C06","C07","C08","C09","C10","C11","C12","C13","C14","C15","C16","C17","C18","C19","C20"]
    if p not in PROPS
]
