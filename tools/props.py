"""Per-property configuration of the runner: which harness streams feed the
violation search / correspondence, with which budgets."""

HOOK_COMMITS = ["f4219a2"]

PROPS = {
    "C05": {
        "streams": [{"name": "c05", "n_quick": 3000, "n_thorough": 60000}],
        "level_text": "Theorems C05_* (Properties/C05.v) prove, for every label map, default policy and string, that the model of api.PolicyToEvaluate / ParseVersion / ParseLevel / Version.String satisfies the independent specification Spec/P05.v (absent->default, enforce fail-closed, audit/warn fail-open, exact error list, warn-follows-enforce, canonical version grammar with the 64-bit Atoi bound, print/parse round trip). The model is tied to the code by running the real functions on a systematic single-label enumeration, parser string products and random label maps, and evaluating both the spec relation and the model on each observed result inside Coq.",
        "level_note": "Trusted: Coq kernel; the handwritten model Model/Api.v (correspondence is sampling: ~5k cases quick); Spec/P05.v as reading of the property; Go harness encoding. No axioms (Print Assumptions: closed).",
        "assumptions": ["labels are a Go map (unique keys); the default policy carries valid levels",
                        "strconv.Atoi range is that of a 64-bit int"],
    },
}

PROPS["C19"] = {
    "streams": [{"name": "c19", "n_quick": 1500, "n_thorough": 40000}],
    "level_text": "Theorems C19_* (Properties/C19.v): for every allow-list record, every registered revision name, every pod and every check table: with the switch off hostUsers is never read (results identical for nil/true/false); with it on, pods without hostUsers=false are unaffected, and for hostUsers=false exactly the revisions of runAsNonRoot, runAsUser and procMount return 'allowed' while every other revision returns the same result (text included); lifted to the assembled evaluator for any table, plus monotonicity. Tied to the code by calling all 25 registered revisions on each generated pod's three hostUsers variants with policy.RelaxPolicyForUserNamespacePods off and on, and evaluating P19 and the model on the observed vectors in Coq.",
    "level_note": "Trusted: Coq kernel; Model/Checks.v (25 revision bodies, correspondence compares full result text); harness alpha encoding; the process-wide atomic switch is toggled sequentially (its atomicity is runtime, observed only). No axioms.",
    "assumptions": ["the registered revisions are the 25 bound in Model/Checks.check_dictionary (all_bound obligation)"],
}

PROPS["C04"] = {
    "streams": [{"name": "c04", "n_quick": 800, "n_thorough": 20000}],
    "level_text": "Theorems C04_* (Properties/C04.v), for ANY check set with opaque check functions: validate_checks accepts exactly the well-formed sets (unique ids, level baseline/restricted, non-empty strictly increasing revisions none unset or 'latest', overrides only by restricted checks and only of absent or baseline ids); for well-formed sets with a single major, resolve = expected as an equality of (id, revision) lists - per check the revision of greatest minimum version <= V, baseline block first in byte-wise id order, restricted = non-overridden baseline + restricted, privileged = nothing; 'latest' and any newer version behave as the newest registered one and never as an empty policy. Tied to the code by running random valid and malformed marker check sets through the real policy.NewEvaluator and EvaluatePod at boundary versions and evaluating P04 and the model on the observed marker sequences in Coq.",
    "level_note": "Trusted: Coq kernel; Model/Registry.v as model of policy/registry.go (correspondence by sampling: ~1200 check sets quick); the hypothesis majors_one (R1 in DESIGN.md: the real populate/inflateVersions loops do not terminate for a MinimumVersion whose major is not 1, so such sets are never generated). No axioms.",
    "assumptions": ["every MinimumVersion has major 1 (R1)"],
}

ADM_NOTE = "Trusted: Coq kernel; Model/Admission.v + Model/Namespace.v as model of admission/admission.go and response.go (correspondence compares allow bit, code, reason, message, warnings, audit annotations, shared-object identity and the full effect trace of dependency/evaluator/metrics calls); apimachinery status construction beyond code/reason/causes and klog are not modelled; the evaluator is a parameter (real registry and a marker evaluator, both answered from a table of direct calls). No axioms."

def adm_prop(stream, nq, nt, text, extra_streams=None, partial="", assumptions=None):
    d = {"streams": [{"name": stream, "n_quick": nq, "n_thorough": nt}] + (extra_streams or []),
         "level_text": text, "level_note": ADM_NOTE, "assumptions": assumptions or []}
    if partial:
        d["partial"] = partial
    return d

# properties not yet claimed (kept current as checks are added)
NOT_APPLICABLE = [
    {"property_id": p, "reason": "check under construction in this session: model/theorems not yet committed (see DESIGN.md section 7 for the planned statement)"}
    for p in ["C01","C02","C03","C04","C06","C07","C08","C09","C10","C11","C12","C13","C14","C15","C16","C17","C18","C19","C20"]
    if p not in PROPS
]
