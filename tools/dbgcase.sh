#!/bin/sh
# usage: dbgcase.sh <workdir> <stream> <global-index> '<coq expr using cN>'
# prints the sample JSON and evaluates the expression (with c = the case) in Coq
d=$1; s=$2; i=$3; e=$4
k=$(ls $d/cases_${s}_*.v | wc -l); sh=$((i % k))
python3 -c "
import json; c=json.load(open('$d/cases_$s.json'))[$i]; print(json.dumps(c, default=str)[:${5:-2500}])"
(grep -v "^Definition R\|^Print" $d/cases_${s}_$sh.v; echo "From PSA Require Import Model.Namespace Spec.PAdm Corr.Adm."; echo "Definition c := c$i."; echo "Eval vm_compute in ($e).") > $d/dbg_$i.v
(cd $d && OCAMLRUNPARAM=s=4M,h=64M,i=32M coqc -Q /verif/coq/theories PSA dbg_$i.v 2>&1 | tail -${6:-60})
