#!/usr/bin/env python3
"""shrink.py - minimise a failing admission case.

usage: shrink.py <stream> <kind: propfail|mismatch> <case.json> <out.json> [budget_seconds]

The case (the failing_case object of a replay file: cfg_strings, marker_evaluator, request, world) is
re-run against the implementation by `psaharness <stream> -replay` and evaluated by coqc; a candidate
is kept when the same kind of failure (relation P_k fails / model and implementation disagree) is still
reported.  Candidates delete list elements and map entries (listed pods, containers, volumes,
annotations, labels, exemptions, security-context fields) greedily, largest structures first, 16 at a
time in parallel.  Purely additive: any error leaves the original case as the answer.
"""
import copy, json, os, shutil, subprocess, sys, tempfile, time
from concurrent.futures import ThreadPoolExecutor

V = os.environ.get("VERIF_ROOT", "/verif")
HARNESS = os.environ.get("SHRINK_HARNESS", os.path.join(V, ".build", "psaharness"))
THEORIES = os.environ.get("SHRINK_THEORIES", os.path.join(V, "coq", "theories"))
ENV = dict(os.environ, OCAMLRUNPARAM="s=4M,h=64M,i=32M")
KEEP = {"cfg_strings", "marker_evaluator", "request", "world", "pod"}


def oracle(stream, kind, case, workroot):
    d = tempfile.mkdtemp(dir=workroot)
    try:
        json.dump(case, open(os.path.join(d, "case.json"), "w"))
        r = subprocess.run([HARNESS, stream, "-replay", os.path.join(d, "case.json"), "-out", d],
                           capture_output=True, text=True, timeout=60)
        if r.returncode != 0:
            return False
        f = os.path.join(d, "cases_%s_0.v" % stream)
        if not os.path.exists(f):
            return False
        r = subprocess.run(["coqc", "-Q", THEORIES, "PSA", f], capture_output=True, text=True, timeout=120, env=ENV, cwd=d)
        out = r.stdout.replace("\n", " ")
        tag = "RF" if kind == "propfail" else "RM"
        i = out.find(tag + " =")
        if i < 0:
            return False
        return "0%N" in out[i:i + 40]
    except Exception:
        return False
    finally:
        shutil.rmtree(d, ignore_errors=True)


def paths(v, prefix=()):
    """all deletable positions (path, size) below v: list elements and dict entries"""
    out = []
    if isinstance(v, dict):
        for k in list(v.keys()):
            out.append((prefix + (k,), len(json.dumps(v[k]))))
            out += paths(v[k], prefix + (k,))
    elif isinstance(v, list):
        for i in range(len(v)):
            out.append((prefix + (i,), len(json.dumps(v[i]))))
            out += paths(v[i], prefix + (i,))
    return out


PROTECTED = {("pod",), ("pod", "metadata"), ("pod", "spec"), ("request", "Group"), ("request", "Resource"), ("request", "Op"), ("request", "Object"), ("request", "Old"),
             ("request", "Object", "kind"), ("request", "Old", "kind"), ("request", "Object", "pod"), ("request", "Old", "pod"),
             ("cfg_strings", "Enforce"), ("cfg_strings", "Audit"), ("cfg_strings", "Warn")}


def delete(case, path):
    c = copy.deepcopy(case)
    x = c
    for p in path[:-1]:
        x = x[p]
    if isinstance(x, list):
        del x[path[-1]]
    else:
        x.pop(path[-1], None)
    return c


def main():
    stream, kind, src, dst = sys.argv[1:5]
    budget = float(sys.argv[5]) if len(sys.argv) > 5 else 90.0
    t0 = time.time()
    case = {k: v for k, v in json.load(open(src)).items() if k in KEEP}
    workroot = tempfile.mkdtemp(prefix="shrink_", dir=os.path.join(V, ".work") if os.path.isdir(os.path.join(V, ".work")) else None)
    stats = {"attempts": 0, "kept": 0, "size_before": len(json.dumps(case))}
    try:
        if not oracle(stream, kind, case, workroot):
            stats["note"] = "the recorded case does not reproduce through replay; not shrunk"
            json.dump({"case": case, "stats": stats}, open(dst, "w"), indent=1)
            return
        progress = True
        while progress and time.time() - t0 < budget:
            progress = False
            cands = [p for p, _ in sorted(paths(case), key=lambda x: -x[1])
                     if p not in PROTECTED and not (len(p) >= 2 and p[-1] in ("name", "kind"))]
            i = 0
            while i < len(cands) and time.time() - t0 < budget:
                batch = cands[i:i + 16]
                i += 16
                with ThreadPoolExecutor(max_workers=16) as ex:
                    res = list(ex.map(lambda p: oracle(stream, kind, delete(case, p), workroot), batch))
                stats["attempts"] += len(batch)
                good = [p for p, ok in zip(batch, res) if ok]
                # drop paths below another successful path, then try them all together (deleting from the
                # back so that list indices stay valid); fall back to the first one alone
                good = [p for p in good if not any(q != p and p[:len(q)] == q for q in good)]
                if good:
                    combined = case
                    for p in sorted(good, key=lambda p: [str(type(x)) + str(x).zfill(6) for x in p], reverse=True):
                        combined = delete(combined, p)
                    stats["attempts"] += 1
                    if len(good) > 1 and oracle(stream, kind, combined, workroot):
                        case = combined
                        stats["kept"] += len(good)
                    else:
                        case = delete(case, good[0])
                        stats["kept"] += 1
                    progress = True
                    break  # paths have shifted: recompute
        stats["size_after"] = len(json.dumps(case))
        stats["seconds"] = round(time.time() - t0, 1)
        json.dump({"case": case, "stats": stats}, open(dst, "w"), indent=1)
    finally:
        shutil.rmtree(workroot, ignore_errors=True)


if __name__ == "__main__":
    main()
