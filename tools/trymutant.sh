#!/bin/sh
# usage: trymutant.sh <patch.diff> <property-id>...   (applies to /repo, runs the quick checks, reverts)
patch=$1; shift
cd /repo || exit 2
if ! git diff --quiet; then echo "/repo has local changes; refusing"; exit 2; fi
git apply "$patch" || { echo "patch does not apply"; exit 2; }
for p in "$@"; do
  echo "--- $p"; (cd /verif && ./run $p quick 2>&1 | grep -v "^\[runner\]" | cut -c1-400 | tail -4)
done
git -C /repo checkout -- . ; git -C /repo status --short | head -3
