#!/usr/bin/env python3
"""usage: archive_mutant.py <worktree> <n> <prop> <index> <summary> <detection-json>
copies out/<n> of a scratch worktree into /verif/seeded/<prop>-<index>/ with a meta.json"""
import sys, os, json, shutil
wt, n, prop, idx, summary, det = sys.argv[1:7]
author = sys.argv[7] if len(sys.argv) > 7 else "fresh sub-agent (third round: asked for narrow changes away from the property's main mechanism) given only the property text and a scratch worktree of /repo"
src = os.path.join(wt, "out", n)
dst = "/verif/seeded/%s-%s" % (prop, idx)
os.makedirs(dst, exist_ok=True)
for f in ("patch.diff", "demo_test.go", "README.md"):
    if os.path.exists(os.path.join(src, f)):
        shutil.copy(os.path.join(src, f), os.path.join(dst, f))
readme = open(os.path.join(dst, "README.md")).read() if os.path.exists(os.path.join(dst, "README.md")) else ""
meta = {
    "property": prop,
    "breaks": readme[:600],
    "needs_to_manifest": summary,
    "author": author,
    "confirmed_by": "tools/confirm_mutant.sh in the scratch worktree: demo passes on pristine tree; with the patch go build ok, full suite passes, demo fails",
    "detection": json.loads(det),
    "how_run": "tools/trymutant.sh %s/patch.diff <property ids>" % dst,
}
json.dump(meta, open(os.path.join(dst, "meta.json"), "w"), indent=1)
print("archived", dst)
