#!/usr/bin/env python3
"""Driver for the pod-security-admission verification checks.

usage: runner.py <property-id> <quick|thorough> [--replay PATH]
       runner.py setup

Pipeline (DESIGN.md section 6):
  prepare  : build the Go harness against /repo's working tree (-tags verif),
             regenerate coq/theories/Gen/*.v from the source, `make -k` the Coq
             development (incremental).
  stream   : run the implementation on generated inputs, write Coq case files.
  evaluate : coqc evaluates P_k (violation search) and model-vs-implementation
             mismatch on every case with vm_compute, 16 shards in parallel.
  verdict  : see DESIGN.md 6.6.
"""
import fcntl, hashlib, json, os, re, shutil, subprocess, sys, time

VERIF = os.path.dirname(os.path.dirname(os.path.abspath(__file__)))
REPO = "/repo"
COQ = os.path.join(VERIF, "coq")
BUILD = os.path.join(VERIF, ".build")
WORK = os.path.join(VERIF, ".work")
HARNESS = os.path.join(VERIF, "harness")
NPROC = 16

GOENV = dict(os.environ, GOFLAGS="-mod=mod", GOPROXY="off", GOSUMDB="off", GOTOOLCHAIN="local",
             CGO_ENABLED=os.environ.get("CGO_ENABLED", "0"))

# measured here: 16 parallel coqc spend most of their time in kernel page-fault
# contention with the default OCaml heap policy (11 s); a larger minor heap and
# heap increment bring the same work to under 2 s.
os.environ.setdefault("OCAMLRUNPARAM", "s=4M,h=64M,i=32M")

sys.path.insert(0, os.path.join(VERIF, "tools"))
from props import PROPS  # noqa: E402


def sh(cmd, cwd=None, env=None, timeout=None, capture=True):
    t0 = time.time()
    try:
        p = subprocess.run(cmd, cwd=cwd, env=env, timeout=timeout, shell=isinstance(cmd, str),
                           stdout=subprocess.PIPE if capture else None,
                           stderr=subprocess.STDOUT if capture else None, text=True)
        return p.returncode, (p.stdout or ""), time.time() - t0
    except subprocess.TimeoutExpired as e:
        out = e.stdout if isinstance(e.stdout, str) else (e.stdout or b"").decode("utf8", "replace")
        return 124, out + "\n[timeout]", time.time() - t0


def log(*a):
    print("[runner]", *a, file=sys.stderr, flush=True)


# ---------------------------------------------------------------- prepare

def build_harness(race=False):
    os.makedirs(BUILD, exist_ok=True)
    gosum = os.path.join(HARNESS, "go.sum")
    try:
        base = open(os.path.join(HARNESS, "go.sum.base")).read() if os.path.exists(os.path.join(HARNESS, "go.sum.base")) else ""
        repo_sum = open(os.path.join(REPO, "go.sum")).read()
        merged = "\n".join(sorted(set((base + "\n" + repo_sum).split("\n")) - {""})) + "\n"
        if not os.path.exists(gosum) or open(gosum).read() != merged:
            open(gosum, "w").write(merged)
    except OSError:
        pass
    out_bin = os.path.join(BUILD, "psaharness-race" if race else "psaharness")
    env = dict(GOENV)
    cmd = ["go", "build", "-tags", "verif", "-o", out_bin]
    if race:
        env["CGO_ENABLED"] = "1"
        cmd.insert(2, "-race")
    cmd.append("./cmd/psaharness")
    rc, out, dt = sh(cmd, cwd=HARNESS, env=env, timeout=900)
    return rc == 0, out, dt


def coq_make(targets=None):
    """make -k; returns (ok, log). Never raises."""
    if not os.path.exists(os.path.join(COQ, "Makefile")) or \
            os.path.getmtime(os.path.join(COQ, "Makefile")) < os.path.getmtime(os.path.join(COQ, "_CoqProject")):
        sh("coq_makefile -f _CoqProject -o Makefile", cwd=COQ, timeout=120)
    cmd = ["make", "-k", "-j%d" % NPROC]
    if targets:
        cmd += targets
    rc, out, dt = sh(cmd, cwd=COQ, timeout=3000)
    return rc == 0, out, dt


def vo_uptodate(rel):
    """True if theories/<rel>.vo is up to date w.r.t. its sources (make -q)."""
    rc, out, _ = sh(["make", "-q", "theories/%s.vo" % rel], cwd=COQ, timeout=300)
    return rc == 0


def run_gen():
    """regenerate Gen/*.v from the source; returns (ok, log)."""
    gen_bin = os.path.join(BUILD, "psaharness")
    gdir = os.path.join(COQ, "theories", "Gen")
    tmp = os.path.join(WORK, "gen")
    shutil.rmtree(tmp, ignore_errors=True)
    os.makedirs(tmp, exist_ok=True)
    rc, out, dt = sh([gen_bin, "gen", "-out", tmp], cwd=HARNESS, env=GOENV, timeout=600)
    if rc != 0:
        return False, out
    changed = []
    for f in sorted(os.listdir(tmp)):
        if not f.endswith(".v"):
            continue
        new = open(os.path.join(tmp, f)).read()
        dst = os.path.join(gdir, f)
        if not os.path.exists(dst) or open(dst).read() != new:
            open(dst, "w").write(new)
            changed.append(f)
    return True, out + ("\nchanged: %s" % changed if changed else "")


def prepare(need_gen=True, race=False):
    os.makedirs(BUILD, exist_ok=True)
    os.makedirs(WORK, exist_ok=True)
    st = {"harness_ok": False, "gen_ok": False, "make_ok": False, "logs": {}}
    with open(os.path.join(BUILD, "lock"), "w") as lk:
        fcntl.flock(lk, fcntl.LOCK_EX)
        ok, out, dt = build_harness()
        st["harness_ok"] = ok
        st["logs"]["harness"] = out[-4000:]
        st["harness_s"] = round(dt, 1)
        if ok and race:
            okr, outr, dtr = build_harness(race=True)
            st["race_ok"] = okr
            st["logs"]["harness_race"] = outr[-4000:]
        if ok and need_gen:
            gok, gout = run_gen()
            st["gen_ok"] = gok
            st["logs"]["gen"] = gout[-4000:]
        mok, mout, mdt = coq_make()
        st["make_ok"] = mok
        st["make_s"] = round(mdt, 1)
        st["logs"]["make"] = mout[-6000:]
        fcntl.flock(lk, fcntl.LOCK_UN)
    return st


# ---------------------------------------------------------------- proofs

ALLOWED_AXIOMS = set()  # the development targets zero axioms


def theorem_names(prop):
    path = os.path.join(COQ, "theories", "Properties", prop + ".v")
    if not os.path.exists(path):
        return []
    src = open(path).read()
    src = re.sub(r"\(\*.*?\*\)", "", src, flags=re.S)
    return re.findall(r"^\s*(?:Theorem|Example|Lemma|Corollary)\s+([A-Za-z0-9_']+)", src, flags=re.M)


FORBIDDEN = re.compile(r"\b(Admitted|admit|Axiom|Axioms|Parameter|Parameters|Conjecture|Conjectures|Admit\s+Obligations)\b|Unset\s+Guard|Unset\s+Positivity|Unset\s+Universe|bypass_check|type-in-type|impredicative-set")


def hygiene():
    """no axioms, admits or kernel switches anywhere in the development (comments stripped)"""
    found = []
    files = [os.path.join(COQ, "_CoqProject")]
    for root, _, fs in os.walk(os.path.join(COQ, "theories")):
        files += [os.path.join(root, f) for f in fs if f.endswith(".v")]
    for f in sorted(files):
        try:
            text = open(f).read()
        except OSError:
            continue
        # strip (possibly nested) comments and string literals
        out, depth, i, instr = [], 0, 0, False
        while i < len(text):
            c2 = text[i:i + 2]
            if instr:
                if text[i] == '"':
                    instr = False
                i += 1
            elif c2 == "(*":
                depth += 1
                i += 2
            elif c2 == "*)" and depth > 0:
                depth -= 1
                i += 2
            elif depth > 0:
                i += 1
            elif text[i] == '"':
                instr = True
                i += 1
            else:
                out.append(text[i])
                i += 1
        m = FORBIDDEN.search("".join(out))
        if m:
            found.append("%s: %s" % (os.path.relpath(f, COQ), m.group(0)))
    return found


def check_proofs(prop):
    """Returns dict: obligations, discharged, assumptions{thm: text}, broken[list]."""
    names = theorem_names(prop)
    res = {"theorems": names, "obligations": len(names), "discharged": 0, "assumptions": {}, "broken": []}
    bad = hygiene()
    if bad:
        res["broken"].append("forbidden construct in the Coq development: " + "; ".join(bad[:5]))
    if not names:
        res["broken"].append("Properties/%s.v has no theorems" % prop)
        return res
    if not vo_uptodate("Properties/" + prop):
        res["broken"].append("theories/Properties/%s.vo does not build (a proof or a generated-table obligation it depends on no longer checks)" % prop)
        return res
    d = os.path.join(WORK, "pa_" + prop)
    shutil.rmtree(d, ignore_errors=True)
    os.makedirs(d)
    body = "From PSA Require Import Properties.%s.\n" % prop
    for n in names:
        body += 'Print Assumptions %s.\n' % n
    open(os.path.join(d, "PA.v"), "w").write(body)
    rc, out, _ = sh(["coqc", "-Q", os.path.join(COQ, "theories"), "PSA", "PA.v"], cwd=d, timeout=600)
    if rc != 0:
        res["broken"].append("Print Assumptions run failed: " + out[-500:])
        return res
    chunks = re.split(r"(?=Closed under the global context|Axioms:)", out)
    chunks = [c.strip() for c in chunks if c.strip()]
    for n, c in zip(names, chunks):
        res["assumptions"][n] = c
        if c.startswith("Closed under the global context"):
            res["discharged"] += 1
        else:
            axs = set(re.findall(r"^([A-Za-z0-9_.']+)\s*:", c, flags=re.M))
            if axs and axs <= ALLOWED_AXIOMS:
                res["discharged"] += 1
            else:
                res["broken"].append("theorem %s depends on axioms: %s" % (n, c[:300]))
    if len(chunks) != len(names):
        res["broken"].append("could not match Print Assumptions output to theorems")
    shutil.rmtree(d, ignore_errors=True)
    return res


def run_coqchk(prop):
    """thorough tier: independent re-check of the compiled property file and everything it depends on."""
    rc, out, dt = sh(["coqchk", "-silent", "-o", "-Q", "theories", "PSA", "PSA.Properties." + prop], cwd=COQ, timeout=3000)
    m = re.search(r"\* Axioms:(.*?)\n\s*\n", out, flags=re.S)
    axioms = " ".join(m.group(1).split()) if m else "?"
    return {"exit": rc, "axioms": axioms, "seconds": round(dt, 1), "tail": out[-600:]}


# ---------------------------------------------------------------- streams

def run_stream(stream, seed, n, outdir, race=False, extra_args=None, timeout=1800):
    shutil.rmtree(outdir, ignore_errors=True)
    os.makedirs(outdir, exist_ok=True)
    binp = os.path.join(BUILD, "psaharness-race" if race else "psaharness")
    cmd = [binp, stream, "-seed", str(seed), "-n", str(n), "-out", outdir, "-shards", str(NPROC)]
    if extra_args:
        cmd += extra_args
    env = dict(GOENV)
    if race:
        env["GORACE"] = "log_path=%s exitcode=0 halt_on_error=0" % os.path.join(outdir, "race")
    rc, out, dt = sh(cmd, cwd=HARNESS, env=env, timeout=timeout)
    return rc, out, dt


def parse_idx(out, name):
    m = re.search(name + r"\s*=\s*(.*?)\n\s*:\s*list N", out, flags=re.S)
    if not m:
        return None
    return [int(x) for x in re.findall(r"(\d+)%N", m.group(1))] if "%N" in m.group(1) else \
        ([int(x) for x in re.findall(r"\d+", m.group(1))])


def eval_shards(outdir, stream):
    """coqc every shard in parallel; returns (propfail global idx, mismatch global idx, errors, wall)."""
    meta = json.load(open(os.path.join(outdir, "meta_%s.json" % stream)))
    shards = meta["shards"]
    k = len(shards)
    t0 = time.time()
    # every module the case files import must be freshly built: a stale .vo left behind by a failed
    # `make -k` must not be used for the evaluation
    stale = []
    if shards:
        try:
            head = open(os.path.join(outdir, shards[0])).read(4000)
            m = re.search(r"From PSA Require Import ([^.]*(?:\.[A-Za-z0-9_]+[^.]*)*)\.\n", head)
            mods = re.findall(r"\b([A-Z][A-Za-z0-9_]*\.[A-Za-z0-9_]+)\b", m.group(1)) if m else []
            for mod in sorted(set(mods)):
                if not vo_uptodate(mod.replace(".", "/")):
                    stale.append(mod)
        except OSError:
            pass
    if stale:
        return [], [], ["theories/%s.vo does not build from the current sources" % x.replace(".", "/") for x in stale], 0.0, meta
    procs = []
    for sname in shards:
        f = open(os.path.join(outdir, sname + ".out"), "w")
        p = subprocess.Popen(["timeout", "1500", "coqc", "-Q", os.path.join(COQ, "theories"), "PSA", sname],
                             cwd=outdir, stdout=f, stderr=subprocess.STDOUT)
        procs.append((sname, p, f))
    pf, mm, errs = [], [], []
    for sh_i, (sname, p, f) in enumerate(procs):
        rc = p.wait()
        f.close()
        out = open(os.path.join(outdir, sname + ".out")).read()
        if rc != 0:
            errs.append("%s: coqc exit %d: %s" % (sname, rc, out[-600:]))
            continue
        rf = parse_idx(out, "RF")
        rm = parse_idx(out, "RM")
        if rf is None or rm is None:
            errs.append("%s: cannot parse coqc output: %s" % (sname, out[-600:]))
            continue
        pf += [i * k + sh_i for i in rf]
        mm += [i * k + sh_i for i in rm]
    for sname in shards:  # keep the directory small
        for ext in (".vo", ".vok", ".vos", ".glob"):
            try:
                os.remove(os.path.join(outdir, sname[:-2] + ext))
            except OSError:
                pass
        try:
            os.remove(os.path.join(outdir, "." + sname[:-2] + ".aux"))
        except OSError:
            pass
    return sorted(pf), sorted(mm), errs, time.time() - t0, meta


# ---------------------------------------------------------------- verdict

def load_known():
    p = os.path.join(VERIF, "known_findings.json")
    if not os.path.exists(p):
        return []
    return json.load(open(p)).get("findings", [])


def signature_of(sample):
    if isinstance(sample, dict):
        return sample.get("signature")
    return None


ADM_STREAMS = {"c01", "c06", "c07", "c08", "c09", "c10", "c11", "c11cs", "c12", "c13adm", "c18adm", "c02", "c03", "c19"}


def shrink_case(payload, kind, f):
    """admission and pod streams: minimise the failing case (tools/shrink.py re-runs candidates through
    `psaharness -replay` and coqc); adds shrunk_case / shrink_stats to the replay, never fails."""
    try:
        stream = f.get("stream")
        case = f.get("case")
        if kind != "propfail" or stream not in ADM_STREAMS or not isinstance(case, dict) or ("cfg_strings" not in case and "pod" not in case):
            return
        d = os.path.join(WORK, "shrink_%d" % os.getpid())
        os.makedirs(d, exist_ok=True)
        src, dst = os.path.join(d, "in.json"), os.path.join(d, "out.json")
        json.dump(case, open(src, "w"), default=str)
        subprocess.run([sys.executable, os.path.join(VERIF, "tools", "shrink.py"), stream, "propfail", src, dst, "60"],
                       timeout=150, capture_output=True, env=dict(os.environ, **GOENV))
        if os.path.exists(dst):
            out = json.load(open(dst))
            payload["shrunk_case"] = out.get("case")
            payload["shrink_stats"] = out.get("stats")
            payload["how_to_replay"] += "; shrunk_case is a minimised input on which the relation still fails (re-run it with: .build/psaharness %s -replay <file holding shrunk_case> -out <dir>, then coqc the case file)" % stream
        shutil.rmtree(d, ignore_errors=True)
    except Exception as e:  # noqa
        payload["shrink_stats"] = {"error": str(e)}


def write_replay(prop, kind, payload):
    d = os.path.join(VERIF, "replays", prop)
    os.makedirs(d, exist_ok=True)
    h = hashlib.sha256(json.dumps(payload, sort_keys=True, default=str).encode()).hexdigest()[:12]
    path = os.path.join(d, "%s_%s.json" % (kind, h))
    json.dump(payload, open(path, "w"), indent=1, default=str)
    return path


def one_pass(prop, cfg, tier, seed, scale=1, tag="main"):
    """run all streams of a property once; returns dict with failures and stats."""
    res = {"propfails": [], "mismatches": [], "errors": [], "go_fails": [], "evaluations": 0, "distinct_nontrivial": 0,
           "distinct": 0, "samples": [], "distribution": {}, "rule": [], "stream_s": 0.0, "eval_s": 0.0, "extra": {}}
    for sdef in cfg["streams"]:
        stream = sdef["name"]
        n = int(sdef.get("n_" + tier, sdef.get("n_quick", 1000)) * scale)
        outdir = os.path.join(WORK, "%s_%s_%s" % (prop, stream, tag))
        race = bool(sdef.get("race"))
        rc, out, dt = run_stream(stream, seed, n, outdir, race=race, extra_args=sdef.get("args"),
                                 timeout=sdef.get("timeout", 2400))
        res["stream_s"] += dt
        if rc != 0:
            crash = re.search(r"(fatal error: [^\n]*|panic: [^\n]*|WARNING: DATA RACE)", out)
            if crash and "psaverif/internal" not in out.split(crash.group(1))[1][:400].split("\n\n")[0]:
                res["go_fails"].append({"stream": stream, "what": "the implementation crashed the harness process: " + crash.group(1),
                                        "case": {"crash_log": out[-3000:]}})
            else:
                res["errors"].append("stream %s failed (exit %d): %s" % (stream, rc, out[-1500:]))
            continue
        if race:
            for fn in sorted(os.listdir(outdir)):
                if fn.startswith("race."):
                    txt = open(os.path.join(outdir, fn)).read()
                    if "DATA RACE" in txt:
                        res["go_fails"].append({"stream": stream, "what": "the Go race detector reported a data race",
                                                "case": {"race_report": txt[:4000]}})
                        break
        pf, mm, errs, edt, meta = eval_shards(outdir, stream)
        res["eval_s"] += edt
        res["errors"] += errs
        cases = json.load(open(os.path.join(outdir, "cases_%s.json" % stream)))
        for i in pf:
            res["propfails"].append({"stream": stream, "index": i, "case": cases[i]})
        for i in mm:
            res["mismatches"].append({"stream": stream, "index": i, "case": cases[i]})
        for g in meta.get("go_oracle_fails") or []:
            res["go_fails"].append({"stream": stream, "what": g["what"], "case": g["replay"]})
        res["evaluations"] += meta["cases"]
        res["distinct"] += meta["distinct"]
        res["distinct_nontrivial"] += meta["distinct_nontrivial"]
        res["samples"] += meta["samples"][:3]
        res["rule"].append("%s: %s" % (stream, meta["rule"]))
        for kx, vx in (meta.get("distribution") or {}).items():
            res["distribution"]["%s/%s" % (stream, kx)] = vx
        if meta.get("extra"):
            res["extra"][stream] = meta["extra"]
        if not pf and not mm and not errs:
            for f in os.listdir(outdir):
                if f.endswith(".v") or f.endswith(".out"):
                    os.remove(os.path.join(outdir, f))
    return res


def main():
    if len(sys.argv) >= 2 and sys.argv[1] == "setup":
        st = prepare(need_gen=True, race=True)
        print(json.dumps({k: v for k, v in st.items() if k != "logs"}))
        if not (st["harness_ok"] and st["make_ok"]):
            print(st["logs"].get("harness", "")[-3000:])
            print(st["logs"].get("gen", "")[-3000:])
            print(st["logs"].get("make", "")[-3000:])
            sys.exit(1)
        sys.exit(0)
    prop, tier = sys.argv[1], sys.argv[2]
    cfg = PROPS[prop]
    seed = int(os.environ.get("VERIF_SEED", "1"))
    t0 = time.time()
    need_race = any(s.get("race") for s in cfg["streams"])
    st = prepare(need_gen=True, race=need_race)
    known = [k for k in load_known() if k.get("property") == prop and k.get("status") == "known"]
    problems = []   # things that make the property "no longer shown to hold"
    if not st["harness_ok"]:
        problems.append("the correspondence harness no longer builds against /repo: " + st["logs"]["harness"][-800:])
    if st["harness_ok"] and not st["gen_ok"]:
        problems.append("translator (gen) failed: " + st["logs"].get("gen", "")[-800:])
    proofs = check_proofs(prop)
    problems += proofs["broken"]
    chk = None
    if tier == "thorough" and not proofs["broken"]:
        chk = run_coqchk(prop)
        if chk["exit"] != 0:
            problems.append("coqchk rejected Properties/%s.vo: %s" % (prop, chk["tail"]))
        elif chk["axioms"] not in ("<none>",):
            problems.append("coqchk reports axioms for Properties/%s.vo: %s" % (prop, chk["axioms"]))
    res = None
    if st["harness_ok"]:
        res = one_pass(prop, cfg, tier, seed)
        if res["errors"]:
            problems += res["errors"]
        if res["mismatches"]:
            m0 = res["mismatches"][0]
            problems.append("model and implementation disagree on %d case(s); first: %s" %
                            (len(res["mismatches"]), json.dumps(m0["case"], default=str)[:600]))
    violations = []
    known_lines = []

    def classify(fails, kind):
        for f in fails:
            sig = signature_of(f["case"])
            hit = [k for k in known if sig and k.get("signature") == sig and k.get("stream") == f.get("stream")]
            if hit:
                line = "KNOWN-FINDING: property=%s %s" % (prop, hit[0].get("summary", sig))
                if line not in known_lines:
                    known_lines.append(line)
            else:
                violations.append((kind, f))
    if res:
        classify(res["propfails"], "propfail")
        classify(res["go_fails"], "gofail")
    searched = {}
    if not violations and problems and st["harness_ok"]:
        # extended search: other seeds, larger budget
        for j, sc in enumerate([3, 6]):
            r2 = one_pass(prop, cfg, tier, seed * 7919 + 101 * (j + 1), scale=sc, tag="ext%d" % j)
            searched["pass%d" % j] = {"evaluations": r2["evaluations"], "propfails": len(r2["propfails"]),
                                     "mismatches": len(r2["mismatches"])}
            classify(r2["propfails"], "propfail")
            classify(r2["go_fails"], "gofail")
            if violations:
                break
    exit_code = 0
    out_lines = []
    if violations:
        kind, f = violations[0]
        payload = {"property": prop, "kind": kind, "stream": f.get("stream"), "what": f.get("what"),
                   "failing_case": f["case"], "all_failures": len(violations),
                   "how_to_replay": "%s/run %s quick (the case is regenerated from the seed %d by stream %s); the input and the implementation's observed output are in failing_case" % (VERIF, prop, seed, f.get("stream")),
                   "other_problems": problems[:5]}
        shrink_case(payload, kind, f)
        path = write_replay(prop, kind, payload)
        out_lines.append("VIOLATION property=%s replay=%s" % (prop, path))
        exit_code = 1
    elif problems:
        payload = {"property": prop, "kind": "no-failing-input-found", "no_longer_checks": problems,
                   "extended_search": searched,
                   "note": "a proof obligation, generated table or the model/implementation correspondence is broken; the search over the implementation found no input violating P_k"}
        path = write_replay(prop, "unproved", payload)
        out_lines.append("VIOLATION property=%s replay=%s no-failing-input-found" % (prop, path))
        exit_code = 1
    wall = time.time() - t0
    os.makedirs(os.path.join(VERIF, "evidence"), exist_ok=True)
    tb = ["Coq 8.16.1 kernel (coqc), vm_compute used for table obligations and for evaluating P_k / the model on cases",
          "handwritten Gallina model of the Go code (coq/theories/Model), tied to /repo by the correspondence cases of this run",
          "Go harness (harness/): generators, alpha encoding Go value -> Gallina term, projection to observables",
          "translator harness/cmd gen -> coq/theories/Gen/*.v (check table, allow-lists, fixtures) via hooks tagged 'verif'",
          "Spec/*.v: transcription of the property text (and of the Pod Security Standards for C02)"]
    tb += cfg.get("trusted_base", [])
    for n, a in proofs["assumptions"].items():
        tb.append("Print Assumptions %s: %s" % (n, " ".join(a.split())[:200]))
    ev = {
        "property_id": prop, "tier": tier, "seed": seed, "level": "proof",
        "coverage": {
            "obligations": proofs["obligations"], "discharged": proofs["discharged"],
            "checker_cmd": "cd %s/coq && make -k -j16 && coqc Print-Assumptions file over Properties/%s.v (tools/runner.py check_proofs)" % (VERIF, prop),
            "trusted_base": tb,
            "theorems": proofs["theorems"],
            "evaluations": res["evaluations"] if res else 0,
            "distinct_nontrivial": res["distinct_nontrivial"] if res else 0,
            "distinct": res["distinct"] if res else 0,
            "rule": " || ".join(res["rule"]) if res else "",
            "samples": (res["samples"] if res and res["samples"] else [{"note": "no cases were produced"}]),
            "traces_validated_against_impl": res["evaluations"] if res else 0,
            "model_impl_mismatches": len(res["mismatches"]) if res else None,
            "property_failures_on_impl": (len(res["propfails"]) + len(res["go_fails"])) if res else None,
            "input_distribution": res["distribution"] if res else {},
            "extra": res["extra"] if res else {},
            "coqchk": chk,
            "known_findings_reported": known_lines,
            "problems": problems,
            "partial": cfg.get("partial", ""),
            "timings_s": {"harness_build": st.get("harness_s"), "make": st.get("make_s"),
                          "streams": round(res["stream_s"], 1) if res else None,
                          "coq_eval": round(res["eval_s"], 1) if res else None},
        },
        "assumptions": cfg.get("assumptions", []),
        "wall_s": round(wall, 2),
        "violations": 1 if exit_code else 0,
    }
    json.dump(ev, open(os.path.join(VERIF, "evidence", prop + ".json"), "w"), indent=1, default=str)
    for l in known_lines:
        print(l)
    for l in out_lines:
        print(l)
    if not out_lines:
        print("OK property=%s tier=%s evaluations=%d theorems=%d/%d wall=%.1fs" % (
            prop, tier, res["evaluations"] if res else 0, proofs["discharged"], proofs["obligations"], wall))
    sys.exit(exit_code)


if __name__ == "__main__":
    main()
