#!/bin/sh
# usage: process_mutants4.sh <worktree>   - confirms both mutants, runs the checks of the properties their README claims to break
wt=$1
for n in 1 2; do
  props=$(head -3 $wt/out/$n/README.md | grep -i "breaks" | grep -o "C[0-9][0-9]" | sort -u | tr '\n' ' ')
  c=$(/verif/tools/confirm_mutant.sh $wt $n 2>&1 | tail -1 | cut -c1-13)
  out=$(/verif/tools/trymutant.sh $wt/out/$n/patch.diff $props 2>&1 | grep -v "^KNOWN-FINDING" | grep "^OK\|^VIOLATION" | sed 's/ tier=quick.*//; s#replay=/verif/replays/##' | tr '\n' ' ')
  echo "$(basename $wt)/$n [$c] breaks: $props => $out"
done
