#!/bin/sh
# usage: confirm_mutant.sh <worktree> <n>   -> prints CONFIRMED or the failing step
wt=$1; n=$2; d=$wt/out/$n
export GOFLAGS=-mod=mod GOPROXY=off GOSUMDB=off GOTOOLCHAIN=local
cd $wt || exit 2
git checkout -q -- . ; git clean -qfd -e out
place=$(head -1 $d/demo_test.go | sed -n 's#.*place in: *\([A-Za-z0-9_/.-]*\).*#\1#p'); place=${place%/}
[ -z "$place" ] && { echo "no place line"; exit 1; }
pkgs=$(go list ./... | grep -v "/out")
# pristine: demo passes
cp $d/demo_test.go $place/zz_demo_test.go
go test -vet=off -count=1 ./$place/ -run 'Demo|demo|Mutant|C[0-9][0-9]' >/tmp/cm_pristine.log 2>&1; r1=$?
# fall back to running the whole package if the pattern matched nothing
grep -q "no tests to run" /tmp/cm_pristine.log && { go test -vet=off -count=1 ./$place/ >/tmp/cm_pristine.log 2>&1; r1=$?; }
rm -f $place/zz_demo_test.go
git apply $d/patch.diff || { echo "patch does not apply"; exit 1; }
go build ./... >/tmp/cm_build.log 2>&1 || { echo "BUILD FAILS"; git checkout -q -- .; exit 1; }
go test -vet=off -count=1 $pkgs >/tmp/cm_suite.log 2>&1; r2=$?
cp $d/demo_test.go $place/zz_demo_test.go
go test -vet=off -count=1 ./$place/ >/tmp/cm_patched.log 2>&1; r3=$?
rm -f $place/zz_demo_test.go
git checkout -q -- . ; git clean -qfd -e out
if [ $r1 -eq 0 ] && [ $r2 -eq 0 ] && [ $r3 -ne 0 ]; then echo "CONFIRMED pristine-demo=pass suite-with-patch=pass demo-with-patch=fail"; else echo "NOT CONFIRMED pristine=$r1 suite=$r2 patched-demo=$r3"; fi
