#!/bin/sh
# usage: process_mutants.sh <worktree-prefix> <prop> [extra props...]   e.g. /tmp/mut2_ C01 C10
# confirms both mutants of the worktree, tries them against the property's check (+extras), prints one line each
pre=$1; p=$2; shift 2
for n in 1 2; do
  c=$(/verif/tools/confirm_mutant.sh ${pre}$p $n 2>&1 | tail -1 | cut -c1-13)
  out=$(/verif/tools/trymutant.sh ${pre}$p/out/$n/patch.diff $p "$@" 2>&1 | grep -v "^KNOWN-FINDING" | tr '\n' ' ' | sed 's#replay=/verif/replays/[A-Za-z0-9_/.]*##g' | cut -c1-300)
  echo "$p/$n [$c] $out"
done
